(* x/beacon gRPC POINT queries (keeper/grpc_query.go: Beacon, BeaconTimestamp, BeaconStorage) as generated from the Go
   source on every run (GeneratedBeaconKeeper.v: go_Beacon_handler, go_BeaconTimestamp_handler, go_BeaconStorage; a
   handler named like the record it returns carries the suffix _handler).  Same three parts as
   proofs/GeneratedWrkchainPointQueryEq.v:

   part 1  exact behaviour of each handler on EVERY request and world (complete case split, exact gRPC status; no
           hypothesis); BeaconStorage also in terms of the model ([limit_of], [rg_num], [max_purchasable], [q_storage])
           under the two range hypotheses of gen_bcn_GetMaxPurchasableSlots_eq, and a refutation without them;
   part 2  C20 "each returned item equals what the corresponding point query returns";
   part 3  "queries never modify state".

   [regs_keyed] is the predicate of proofs/GeneratedWrkchainEq.v (it speaks of the registry state shared by the two
   modules); that file is Required without Import. *)
From Coq Require Import ZifyBool NArith Sorted.
From MC Require Import lib.Prelude lib.AMap lib.GoSdk GeneratedBeaconTypes model.Bank model.Registry model.RegistrySpec
  model.BeaconKeeperPrims GeneratedBeaconKeeper.
From MC Require Import model.Paginate model.PaginateCallback.
From MC Require Import proofs.RegistryProofs proofs.GeneratedBeaconEq proofs.GeneratedBeaconQueryEq.
From MC Require proofs.GeneratedBeaconGenesisEq proofs.GeneratedWrkchainEq.
Local Notation regs_keyed := MC.proofs.GeneratedWrkchainEq.regs_keyed.
Local Notation reg_inv_regs_keyed := MC.proofs.GeneratedWrkchainEq.reg_inv_regs_keyed.
Local Open Scope Z_scope.

#[local] Arguments Z.sub : simpl never.
#[local] Arguments Z.ltb : simpl never.
#[local] Arguments Z.leb : simpl never.
#[local] Arguments Z.eqb : simpl never.
#[local] Arguments aget : simpl never.
#[local] Arguments u64_sub : simpl never.

(* split on the next test or store lookup of the goal, whatever side it is on *)
Ltac pq_split :=
  cbn;
  repeat (match goal with
          | |- context [if ?c then _ else _] => destruct c eqn:?
          | |- context [match aget ?k ?m with _ => _ end] => destruct (aget k m) eqn:?
          end; cbn).

(* the stored record as the protobuf timestamp *)
Definition to_go_timestamp (rc : record) : go_BeaconTimestamp :=
  mk_go_BeaconTimestamp (rc_key rc) (rc_time rc) (hash_n 0 rc).

(* ------------------------------------------------------------------------------------------ *)
(* part 1: the handlers, on every request and world                                           *)
(* ------------------------------------------------------------------------------------------ *)

(* Beacon: id 0 -> InvalidArgument; unknown id -> NotFound; else the stored registration *)
Theorem bcn_point_Beacon_cases : forall w req,
  go_Beacon_handler w req =
    let id := QueryBeaconRequest_BeaconId req in
    if id =? 0 then Err grpc_codes_InvalidArgument else
    match aget id (r_regs (rw_reg w)) with
    | Some rg => Ok (mk_go_QueryBeaconResponse (to_go_entity rg))
    | None => Err grpc_codes_NotFound
    end.
Proof.
  intros w req. unfold go_Beacon_handler, reg_GetEntity. cbv zeta. pq_split; reflexivity.
Qed.

(* ... which is the model's query [q_registration] *)
Corollary bcn_point_Beacon_model : forall w req,
  QueryBeaconRequest_BeaconId req <> 0 ->
  go_Beacon_handler w req =
    match q_registration (rw_reg w) (QueryBeaconRequest_BeaconId req) with
    | Some rg => Ok (mk_go_QueryBeaconResponse (to_go_entity rg))
    | None => Err grpc_codes_NotFound
    end.
Proof.
  intros w req Hn. rewrite bcn_point_Beacon_cases. cbv zeta. apply Z.eqb_neq in Hn. rewrite Hn. reflexivity.
Qed.

(* BeaconTimestamp: id 0 / timestamp id 0 -> InvalidArgument; unknown beacon -> NotFound; no record stored under
   (id, timestamp id) -> NotFound; else that record with the id and the owner read from the stored beacon *)
Theorem bcn_point_BeaconTimestamp_cases : forall w req,
  go_BeaconTimestamp_handler w req =
    let id := QueryBeaconTimestampRequest_BeaconId req in
    let h := QueryBeaconTimestampRequest_TimestampId req in
    if id =? 0 then Err grpc_codes_InvalidArgument else
    if h =? 0 then Err grpc_codes_InvalidArgument else
    match aget id (r_regs (rw_reg w)) with
    | None => Err grpc_codes_NotFound
    | Some rg =>
        match aget (id, h) (r_recs (rw_reg w)) with
        | None => Err grpc_codes_NotFound
        | Some rc => Ok (mk_go_QueryBeaconTimestampResponse (to_go_timestamp rc) (rg_id rg) (rg_owner rg))
        end
    end.
Proof.
  intros w req. unfold go_BeaconTimestamp_handler, reg_GetEntity, reg_GetRecord. cbv zeta. pq_split; reflexivity.
Qed.

(* under the registry invariant the answer carries the requested ids *)
Corollary bcn_point_BeaconTimestamp_inv : forall h w g req resp,
  reg_inv h (rw_reg w) g ->
  go_BeaconTimestamp_handler w req = Ok resp ->
  QueryBeaconTimestampResponse_BeaconId resp = QueryBeaconTimestampRequest_BeaconId req /\
  BeaconTimestamp_TimestampId (QueryBeaconTimestampResponse_Timestamp resp) = QueryBeaconTimestampRequest_TimestampId req /\
  q_record (rw_reg w) (QueryBeaconTimestampRequest_BeaconId req) (QueryBeaconTimestampRequest_TimestampId req)
    <> None.
Proof.
  intros h w g req resp I. rewrite bcn_point_BeaconTimestamp_cases. cbv zeta. unfold q_record.
  destruct (QueryBeaconTimestampRequest_BeaconId req =? 0); [discriminate|].
  destruct (QueryBeaconTimestampRequest_TimestampId req =? 0); [discriminate|].
  destruct (aget (QueryBeaconTimestampRequest_BeaconId req) (r_regs (rw_reg w))) as [rg|] eqn:G; [|discriminate].
  destruct (aget (QueryBeaconTimestampRequest_BeaconId req, QueryBeaconTimestampRequest_TimestampId req) (r_recs (rw_reg w)))
    as [rc|] eqn:R; [|discriminate].
  intros [= <-]. cbn. split; [exact (reg_inv_regs_keyed _ _ _ I _ _ G)|]. split; [|discriminate].
  apply aget_In in R. exact (GeneratedBeaconGenesisEq.reg_inv_rc_key _ _ _ _ _ _ I R).
Qed.

(* GetMaxPurchasableSlots never fails; without any hypothesis it is the model's [max_purchasable] with the uint64
   subtraction of the Go code *)
Definition max_purchasable_u64 (s : reg_state) (id : Z) : Z :=
  match aget id (r_limits s) with
  | None => 0
  | Some l => if rp_max_limit (r_params s) <=? l then 0 else u64_sub (rp_max_limit (r_params s)) l
  end.

Lemma bcn_GetMaxPurchasableSlots_total : forall w id,
  go_GetMaxPurchasableSlots w id = Ok (max_purchasable_u64 (rw_reg w) id).
Proof.
  intros w id. unfold go_GetMaxPurchasableSlots, max_purchasable_u64, reg_GetStorageLimit, reg_GetParamMaxStorageLimit.
  cbv zeta. pq_split; reflexivity.
Qed.

Lemma max_purchasable_u64_eq : forall s id,
  rp_max_limit (r_params s) < two64 ->
  (forall l, aget id (r_limits s) = Some l -> 0 <= l) ->
  max_purchasable_u64 s id = max_purchasable s id.
Proof.
  intros s id Hmax Hl. unfold max_purchasable_u64, max_purchasable.
  destruct (aget id (r_limits s)) as [l|]; [|reflexivity].
  pose proof (Hl l eq_refl). destruct (Z.leb_spec (rp_max_limit (r_params s)) l); [reflexivity|].
  unfold u64_sub. apply wrap64_small. lia.
Qed.

(* BeaconStorage: id 0 -> InvalidArgument; unknown beacon -> NotFound; else (id and owner of the stored beacon, current
   limit, used, max, how many more can be bought) - no hypothesis *)
Theorem bcn_point_BeaconStorage_cases : forall w req,
  go_BeaconStorage w req =
    let id := QueryBeaconStorageRequest_BeaconId req in
    let s := rw_reg w in
    if id =? 0 then Err grpc_codes_InvalidArgument else
    match aget id (r_regs s) with
    | None => Err grpc_codes_NotFound
    | Some rg =>
        Ok (mk_go_QueryBeaconStorageResponse (rg_id rg) (rg_owner rg) (limit_of s id) (rg_num rg)
              (rp_max_limit (r_params s)) (max_purchasable_u64 s id))
    end.
Proof.
  intros w req. unfold go_BeaconStorage. rewrite bcn_GetMaxPurchasableSlots_total.
  unfold reg_GetEntity, reg_GetStorageLimit, reg_GetParamMaxStorageLimit, limit_of. cbv zeta.
  pq_split; reflexivity.
Qed.

(* the storage answer of the model's [q_storage], as the protobuf response *)
Definition storage_resp (rg : registration) (si : storage_info) : go_QueryBeaconStorageResponse :=
  mk_go_QueryBeaconStorageResponse (rg_id rg) (si_owner si) (si_limit si) (si_used si) (si_max si)
    (si_max_purchasable si).

(* ... under the hypotheses of gen_bcn_GetMaxPurchasableSlots_eq: the model's numbers *)
Theorem bcn_point_BeaconStorage_model : forall w req,
  rp_max_limit (r_params (rw_reg w)) < two64 ->
  (forall l, aget (QueryBeaconStorageRequest_BeaconId req) (r_limits (rw_reg w)) = Some l -> 0 <= l) ->
  go_BeaconStorage w req =
    let id := QueryBeaconStorageRequest_BeaconId req in
    let s := rw_reg w in
    if id =? 0 then Err grpc_codes_InvalidArgument else
    match aget id (r_regs s) with
    | None => Err grpc_codes_NotFound
    | Some rg =>
        Ok (mk_go_QueryBeaconStorageResponse (rg_id rg) (rg_owner rg) (limit_of s id) (rg_num rg)
              (rp_max_limit (r_params s)) (max_purchasable s id))
    end.
Proof.
  intros w req Hmax Hl. rewrite bcn_point_BeaconStorage_cases. cbv zeta.
  rewrite (max_purchasable_u64_eq _ _ Hmax Hl). reflexivity.
Qed.

Corollary bcn_point_BeaconStorage_q_storage : forall w req,
  rp_max_limit (r_params (rw_reg w)) < two64 ->
  (forall l, aget (QueryBeaconStorageRequest_BeaconId req) (r_limits (rw_reg w)) = Some l -> 0 <= l) ->
  QueryBeaconStorageRequest_BeaconId req <> 0 ->
  go_BeaconStorage w req =
    match aget (QueryBeaconStorageRequest_BeaconId req) (r_regs (rw_reg w)),
          q_storage (rw_reg w) (QueryBeaconStorageRequest_BeaconId req) with
    | Some rg, Some si => Ok (storage_resp rg si)
    | _, _ => Err grpc_codes_NotFound
    end.
Proof.
  intros w req Hmax Hl Hn. rewrite (bcn_point_BeaconStorage_model _ _ Hmax Hl). cbv zeta.
  apply Z.eqb_neq in Hn. rewrite Hn. unfold q_storage, storage_resp.
  destruct (aget (QueryBeaconStorageRequest_BeaconId req) (r_regs (rw_reg w))); reflexivity.
Qed.

(* the range hypothesis on the stored limit cannot be dropped: a stored limit below zero (never written by the chain:
   limits are uint64) makes the uint64 subtraction wrap, the model's number does not *)
Definition refute_params : reg_params :=
  {| rp_fee_register := 1; rp_fee_record := 1; rp_fee_purchase := 1; rp_denom := 0; rp_default_limit := 10;
     rp_max_limit := two64 - 1 |}.
Definition refute_rg : registration :=
  {| rg_id := 1; rg_owner := 7; rg_moniker := "m"; rg_name := "n"; rg_genesis := "g"; rg_type := "t"; rg_last := 0;
     rg_num := 0; rg_lowest := 0; rg_regtime := 5 |}.
Definition refute_world : rworld :=
  mk_rworld 0 0 {| r_params := refute_params; r_next := 2; r_regs := [(1, refute_rg)]; r_limits := [(1, -1)]; r_recs := [] |}.

Theorem bcn_point_BeaconStorage_model_without_range_refuted :
  rp_max_limit (r_params (rw_reg refute_world)) < two64 /\
  QueryBeaconStorageResponse_MaxPurchasable
    (match go_BeaconStorage refute_world (mk_go_QueryBeaconStorageRequest 1) with
     | Ok r => r | _ => zero_go_QueryBeaconStorageResponse end) = 0 /\
  max_purchasable (rw_reg refute_world) 1 = two64.
Proof. split; [reflexivity|]. split; vm_compute; reflexivity. Qed.

(* ------------------------------------------------------------------------------------------ *)
(* part 2: list <-> point                                                                     *)
(* ------------------------------------------------------------------------------------------ *)

(* The listing handed to the list query BeaconsFiltered (props/C20generated.v: [items : list (N * go_Beacon)]): the
   registration store in store order, every registration under the number of its store key, as the protobuf record. *)
Definition bcn_store_listing (s : reg_state) : list (N * go_Beacon) :=
  map (fun kv => (Z.to_N (fst kv), to_go_entity (snd kv))) (r_regs s).

(* no registration is stored under id 0 (ids start at 1) *)
Definition ids_nonzero (s : reg_state) : Prop := forall id rg, aget id (r_regs s) = Some rg -> id <> 0.

Lemma reg_inv_ids_nonzero h s g : reg_inv h s g -> ids_nonzero s.
Proof. intros I id rg G. destruct (inv_regs _ _ _ I _ _ G) as [Hr _]. lia. Qed.

Theorem bcn_listed_is_point : forall w k v,
  NoDup (akeys (r_regs (rw_reg w))) -> regs_keyed (rw_reg w) -> ids_nonzero (rw_reg w) ->
  In (k, v) (bcn_store_listing (rw_reg w)) ->
  k = Z.to_N (Beacon_BeaconId v) /\
  go_Beacon_handler w (mk_go_QueryBeaconRequest (Beacon_BeaconId v)) = Ok (mk_go_QueryBeaconResponse v).
Proof.
  intros w k v ND HK H0 Hin. unfold bcn_store_listing in Hin. apply in_map_iff in Hin.
  destruct Hin as [[id rg] [E Hin]]. cbn [fst snd] in E. injection E as <- <-.
  pose proof (In_aget_nodup _ _ _ ND Hin) as G. pose proof (HK _ _ G) as Hid. pose proof (H0 _ _ G) as Hnz.
  cbn [to_go_entity Beacon_BeaconId]. rewrite Hid. split; [reflexivity|].
  rewrite bcn_point_Beacon_cases. cbn [QueryBeaconRequest_BeaconId]. cbv zeta.
  apply Z.eqb_neq in Hnz. rewrite Hnz, G. reflexivity.
Qed.

(* ... and nothing else is answered: an Ok answer of the point query is listed, under its id *)
Theorem bcn_point_is_listed : forall w req resp,
  go_Beacon_handler w req = Ok resp ->
  In (Z.to_N (QueryBeaconRequest_BeaconId req), QueryBeaconResponse_Beacon resp) (bcn_store_listing (rw_reg w)).
Proof.
  intros w req resp. rewrite bcn_point_Beacon_cases. cbv zeta.
  destruct (QueryBeaconRequest_BeaconId req =? 0); [discriminate|].
  destruct (aget (QueryBeaconRequest_BeaconId req) (r_regs (rw_reg w))) as [rg|] eqn:G; [|discriminate].
  intros [= <-]. cbn [QueryBeaconResponse_Beacon]. unfold bcn_store_listing. apply in_map_iff.
  exists (QueryBeaconRequest_BeaconId req, rg). split; [reflexivity|]. apply aget_In. exact G.
Qed.

Lemma Sorted_Nlt_NoDup (l : list N) : Sorted N.lt l -> NoDup l.
Proof.
  intros S. apply Sorted_StronglySorted in S; [|intros a b c; apply N.lt_trans].
  induction S as [|x l S IH F]; constructor; [|exact IH].
  intros Hin. rewrite Forall_forall in F. apply F in Hin. exact (N.lt_irrefl _ Hin).
Qed.

Lemma bcn_listing_sorted_NoDup s : Sorted N.lt (map fst (bcn_store_listing s)) -> NoDup (akeys (r_regs s)).
Proof.
  intros S. apply Sorted_Nlt_NoDup in S. unfold bcn_store_listing in S. rewrite map_map in S. cbn [fst] in S.
  unfold akeys. rewrite <- (map_map fst Z.to_N) in S. exact (NoDup_map_inv _ _ S).
Qed.

(* the C20 clause for the pages of the generated list query: every item of every page BeaconsFiltered's generated
   callback produces over the store listing is exactly the point query's answer for its id *)
Theorem bcn_page_item_is_point : forall w req preq r v,
  Sorted N.lt (map fst (bcn_store_listing (rw_reg w))) -> regs_keyed (rw_reg w) -> ids_nonzero (rw_reg w) ->
  list_query_cb (bcn_store_listing (rw_reg w)) (go_BeaconsFiltered_callback req) preq = Ok r ->
  In v (cres_state r) ->
  go_Beacon_handler w (mk_go_QueryBeaconRequest (Beacon_BeaconId v)) = Ok (mk_go_QueryBeaconResponse v).
Proof.
  intros w req preq r v S HK H0 Hq Hin.
  destruct (bcn_single_page_sound _ _ _ _ S Hq) as [its [Est [Hits _]]].
  rewrite Est in Hin. apply in_map_iff in Hin. destruct Hin as [[k v'] [E Hx]]. cbn [snd] in E. subst v'.
  destruct (Hits _ Hx) as [Hl _].
  exact (proj2 (bcn_listed_is_point w k v (bcn_listing_sorted_NoDup _ S) HK H0 Hl)).
Qed.

Corollary bcn_page_item_is_point_inv : forall h w g req preq r v,
  reg_inv h (rw_reg w) g ->
  Sorted N.lt (map fst (bcn_store_listing (rw_reg w))) ->
  list_query_cb (bcn_store_listing (rw_reg w)) (go_BeaconsFiltered_callback req) preq = Ok r ->
  In v (cres_state r) ->
  go_Beacon_handler w (mk_go_QueryBeaconRequest (Beacon_BeaconId v)) = Ok (mk_go_QueryBeaconResponse v).
Proof.
  intros h w g req preq r v I S. apply bcn_page_item_is_point; [exact S| |].
  - exact (reg_inv_regs_keyed _ _ _ I).
  - exact (reg_inv_ids_nonzero _ _ _ I).
Qed.

Corollary bcn_listed_is_point_inv : forall h w g k v,
  reg_inv h (rw_reg w) g ->
  In (k, v) (bcn_store_listing (rw_reg w)) ->
  k = Z.to_N (Beacon_BeaconId v) /\
  go_Beacon_handler w (mk_go_QueryBeaconRequest (Beacon_BeaconId v)) = Ok (mk_go_QueryBeaconResponse v).
Proof.
  intros h w g k v I. apply bcn_listed_is_point.
  - exact (inv_nd_regs _ _ _ I).
  - exact (reg_inv_regs_keyed _ _ _ I).
  - exact (reg_inv_ids_nonzero _ _ _ I).
Qed.

(* the keyed hypothesis cannot be dropped: a registration stored under another id than its own is listed, and the
   point query for the id it carries does not answer it *)
Definition unkeyed_world : rworld :=
  mk_rworld 0 0 {| r_params := refute_params; r_next := 3; r_regs := [(2, refute_rg)]; r_limits := [(2, 10)]; r_recs := [] |}.
Theorem bcn_listed_is_point_without_keyed_refuted :
  In (2%N, to_go_entity refute_rg) (bcn_store_listing (rw_reg unkeyed_world)) /\
  go_Beacon_handler unkeyed_world (mk_go_QueryBeaconRequest (Beacon_BeaconId (to_go_entity refute_rg)))
    = Err grpc_codes_NotFound.
Proof. split; [left; reflexivity | vm_compute; reflexivity]. Qed.

(* ------------------------------------------------------------------------------------------ *)
(* part 3: queries never modify state                                                         *)
(* ------------------------------------------------------------------------------------------ *)
(* By type: go_Beacon_handler, go_BeaconTimestamp_handler, go_BeaconStorage (and go_GetMaxPurchasableSlots, and the
   list-query callback) were all rendered as READERS - [rworld -> request -> outcome response], no world is returned -
   so the caller's world is the one it had.  None of them was rendered state-passing. *)
Definition bcn_point_readers :
  (rworld -> go_QueryBeaconRequest -> outcome go_QueryBeaconResponse) *
  (rworld -> go_QueryBeaconTimestampRequest -> outcome go_QueryBeaconTimestampResponse) *
  (rworld -> go_QueryBeaconStorageRequest -> outcome go_QueryBeaconStorageResponse) :=
  (go_Beacon_handler, go_BeaconTimestamp_handler, go_BeaconStorage).

(* ... and the answers depend on the registry state only: not on block time nor wall clock *)
Theorem bcn_point_state_only : forall w w',
  rw_reg w = rw_reg w' ->
  (forall req, go_Beacon_handler w req = go_Beacon_handler w' req) /\
  (forall req, go_BeaconTimestamp_handler w req = go_BeaconTimestamp_handler w' req) /\
  (forall req, go_BeaconStorage w req = go_BeaconStorage w' req).
Proof.
  intros w w' E. repeat split; intros req.
  - rewrite !bcn_point_Beacon_cases, E. reflexivity.
  - rewrite !bcn_point_BeaconTimestamp_cases, E. reflexivity.
  - rewrite !bcn_point_BeaconStorage_cases, E. reflexivity.
Qed.

Print Assumptions bcn_point_Beacon_cases.
Print Assumptions bcn_point_BeaconTimestamp_cases.
Print Assumptions bcn_point_BeaconTimestamp_inv.
Print Assumptions bcn_point_BeaconStorage_cases.
Print Assumptions bcn_point_BeaconStorage_model.
Print Assumptions bcn_point_BeaconStorage_q_storage.
Print Assumptions bcn_point_BeaconStorage_model_without_range_refuted.
Print Assumptions bcn_listed_is_point.
Print Assumptions bcn_point_is_listed.
Print Assumptions bcn_page_item_is_point.
Print Assumptions bcn_page_item_is_point_inv.
Print Assumptions bcn_listed_is_point_inv.
Print Assumptions bcn_listed_is_point_without_keyed_refuted.
Print Assumptions bcn_point_state_only.
