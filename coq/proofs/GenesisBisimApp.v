(* C15, last clause at the application level: two application states related by [app_sim] (as the
   original and the re-imported state are) react identically to every transaction, CheckTx, BeginBlock
   and EndBlock: same result, related states.  The left state carries the registry invariants, which
   the steps preserve. *)
From MC Require Import lib.Prelude lib.AMap model.Bank model.Stream model.StreamSpec model.Registry
  model.RegistrySpec model.Enterprise model.EnterpriseSpec model.App model.AppSpec model.Genesis.
From MC Require Import proofs.BankProofs proofs.StreamProofs proofs.EnterpriseProofs proofs.RegistryProofs
  proofs.AppFrame proofs.AppParamsProofs proofs.AppInv proofs.GenesisLib proofs.GenesisProofs proofs.GenesisOrder
  proofs.GenesisBisim.
From Coq Require Import Permutation ZifyBool.
Ltac Zify.zify_post_hook ::= Z.div_mod_to_equations.
Local Open Scope Z_scope.

Record app_sim (a a' : app) : Prop := {
  as_bank : a_bank a = a_bank a';
  as_ent : ent_sim (a_ent a) (a_ent a');
  as_wrk : reg_sim (a_wrk a) (a_wrk a');
  as_bcn : reg_sim (a_bcn a) (a_bcn a');
  as_str : a_str a = a_str a';
  as_grants : a_grants a = a_grants a';
  as_allow : a_allow a = a_allow a';
  as_now : a_now a = a_now a'
}.

Lemma app_sim_refl a : regs_inv a -> app_sim a a.
Proof.
  intros [[gw Iw] [gb Ib]]. constructor; auto; [apply ent_sim_refl | apply (reg_sim_refl _ _ _ Iw) | apply (reg_sim_refl _ _ _ Ib)].
Qed.

Lemma app_sim_sym a a' : app_sim a a' -> app_sim a' a.
Proof. intros []; constructor; auto; [apply ent_sim_sym | apply reg_sim_sym | apply reg_sim_sym]; assumption. Qed.

(* the re-imported state is related to the original *)
Theorem app_sim_reimported a :
  app_inv a -> regs_inv a -> app_under_cap a -> ent_ordered (a_ent a) -> app_sim (app_reimported a) a.
Proof.
  intros Ia [[gw Iw] [gb Ib]] [Cw Cb] Ho. constructor; cbn [app_reimported a_bank a_ent a_wrk a_bcn a_str a_grants a_allow a_now]; auto.
  - apply (ent_sim_reimported (unix (a_now a))); [apply (ai_ent a Ia) | exact Ho].
  - apply (reg_sim_reimported true _ gw Iw Cw).
  - apply (reg_sim_reimported false _ gb Ib Cb).
Qed.

(* related states are observationally equal *)
Lemma reg_sim_equiv s s' : reg_sim s s' -> reg_equiv s s'.
Proof.
  intros S. unfold reg_equiv. rewrite (rs_params _ _ S), (rs_next _ _ S), (rs_regs _ _ S), (rs_limits _ _ S).
  repeat split; auto. - intros id. apply (limit_of_sim _ _ id S). - apply S.
Qed.

Theorem app_sim_equiv a a' : app_sim a a' -> app_equiv a a'.
Proof.
  intros [Eb Se Sw Sb Es Eg Ea En]. unfold app_equiv, app_equiv_gen. do 4 (split; [assumption|]).
  split; [|split; [apply reg_sim_equiv; exact Sw | split; [apply reg_sim_equiv; exact Sb | rewrite Es; apply str_equiv_refl]]].
  unfold ent_equiv. rewrite (es_params _ _ Se), (es_next _ _ Se), (es_pos _ _ Se), (es_rq _ _ Se), (es_aq _ _ Se), (es_wl _ _ Se).
  do 6 (split; [reflexivity|]). split; [intros x; apply locked_coin_sim; exact Se|].
  split; [intros x; apply spent_coin_sim; exact Se|]. split; [apply Se | apply Se].
Qed.

(* ---------- the registry invariants along execution ---------- *)

Lemma exec_leaf_regs f a m a1 :
  is_exec m = false -> msg_wf m -> exec_msg f a m = Ok a1 -> regs_inv a -> regs_inv a1.
Proof.
  intros X W H R. pose proof (msg_wf_signer m W) as Sg. destruct f as [|f]; [discriminate|].
  destruct m as [e|r|r|s|from to cs|gr ge ty|gr ge|ge inner|au u]; try discriminate X; cbn in H.
  - step H. destruct a0 as [e' z]. injection H as <-. exact R.
  - step H. destruct a0 as [r' z]. injection H as <-. destruct R as [[gw Iw] Rb]. split; [|exact Rb].
    cbn [with_wrk a_wrk]. destruct W as [_ Wr]. eapply reg_exec_inv; eauto.
  - step H. destruct a0 as [r' z]. injection H as <-. destruct R as [Rw [gb Ib]]. split; [exact Rw|].
    cbn [with_bcn a_bcn]. destruct W as [_ Wr]. eapply reg_exec_inv; eauto.
  - step H. destruct a0 as [[b' s'] z]. injection H as <-. exact R.
  - step H. step H. step H. injection H as <-. exact R.
  - injection H as <-. exact R.
  - step H. injection H as <-. exact R.
  - step H. cbn [msg_signer] in Sg. apply negb_false_iff, Z.eqb_eq in C. subst au. unfold GOV_MACC in Sg. lia.
Qed.

Lemma exec_msg_regs f a m a1 : msg_wf m -> exec_msg f a m = Ok a1 -> regs_inv a -> regs_inv a1.
Proof.
  apply (exec_msg_rel (fun a a' => regs_inv a -> regs_inv a') msg_wf); auto.
  - intros f0 a0 m0 a2 X W H R. eapply exec_leaf_regs; eauto.
  - intros; eapply msg_wf_inner; eauto.
Qed.

(* ---------- folds on related states ---------- *)

Lemma ofold_sim {B} (g : app -> B -> outcome app) (J : app -> Prop) (W : B -> Prop) :
  (forall a a' m, W m -> J a -> app_sim a a' -> osim app_sim (g a m) (g a' m)) ->
  (forall a m a1, W m -> J a -> g a m = Ok a1 -> J a1) ->
  forall l a a', (forall m, In m l -> W m) -> J a -> app_sim a a' ->
                 osim app_sim (ofold g l (Ok a)) (ofold g l (Ok a')).
Proof.
  intros Hs Hj. induction l as [|m l IH]; intros a a' Wl Ja S.
  - rewrite !ofold_nil. exact S.
  - rewrite !ofold_cons. assert (Wm : W m) by (apply Wl; left; reflexivity).
    pose proof (Hs a a' m Wm Ja S) as X.
    destruct (g a m) as [a1|c|c] eqn:E1; destruct (g a' m) as [a2|c'|c'] eqn:E2; cbn [osim] in X; try contradiction.
    + apply IH; auto. * intros j Hj'. apply Wl; right; exact Hj'. * eapply Hj; eauto.
    + subst. rewrite !ofold_err. reflexivity.
    + subst. rewrite !ofold_panic. reflexivity.
Qed.

(* ---------- one message ---------- *)

Lemma exec_leaf_sim f a a' m :
  is_exec m = false -> msg_wf m -> regs_inv a -> app_sim a a' -> osim app_sim (exec_msg f a m) (exec_msg f a' m).
Proof.
  intros X W R S. pose proof (msg_wf_signer m W) as Sg. destruct f as [|f]; [reflexivity|].
  pose proof S as [Eb Se Sw Sb Es Eg Ea En].
  destruct m as [e|r|r|s|from to cs|gr ge ty|gr ge|ge inner|au u]; try discriminate X; cbn [exec_msg].
  - rewrite <- En, <- Eb. apply (osim_bind rsim); [apply ent_exec_sim; exact Se|].
    intros [e1 z1] [e2 z2] [Y _]. cbn [fst] in Y. cbn [osim]. constructor; cbn; auto.
  - rewrite <- En. destruct R as [[gw Iw] _]. apply (osim_bind rrsim); [apply (reg_exec_sim true _ _ _ gw); assumption|].
    intros [r1 z1] [r2 z2] [Y _]. cbn [fst] in Y. cbn [osim]. constructor; cbn; auto.
  - rewrite <- En. destruct R as [_ [gb Ib]]. apply (osim_bind rrsim); [apply (reg_exec_sim false _ _ _ gb); assumption|].
    intros [r1 z1] [r2 z2] [Y _]. cbn [fst] in Y. cbn [osim]. constructor; cbn; auto.
  - rewrite <- En, <- Eb, <- Es. destruct (str_exec (a_now a) (a_bank a) (a_str a) s) as [[[b1 s1] z]| |]; cbn [obind osim]; auto.
    constructor; cbn; auto.
  - destruct (blocked to); [reflexivity|]. rewrite <- Eb. destruct (negb (can_afford (a_bank a) from cs)); [reflexivity|].
    destruct (send_coins (a_bank a) from to cs) as [b1| |]; cbn [obind osim]; auto. constructor; cbn; auto.
  - cbn [osim]. constructor; cbn; auto. rewrite Eg. reflexivity.
  - rewrite <- Ea. match goal with |- context [existsb ?g (a_allow a)] => destruct (existsb g (a_allow a)) end; [reflexivity|]. cbn [osim]. constructor; cbn; auto.
  - cbn [msg_signer] in Sg. destruct (au =? GOV_MACC) eqn:C; cbn [negb]; [|reflexivity].
    apply Z.eqb_eq in C. subst au. unfold GOV_MACC in Sg. lia.
Qed.

Lemma has_grant_sim a a' x y z : app_sim a a' -> has_grant a x y z = has_grant a' x y z.
Proof. intros S. unfold has_grant. rewrite (as_grants _ _ S). reflexivity. Qed.

Lemma exec_msg_sim f : forall a a' m,
  msg_wf m -> regs_inv a -> app_sim a a' -> osim app_sim (exec_msg f a m) (exec_msg f a' m).
Proof.
  induction f as [|f IH]; intros a a' m W R S; [reflexivity|].
  destruct (is_exec m) eqn:X; [|apply exec_leaf_sim; assumption].
  destruct m as [| | | | | | |ge inner|]; try discriminate. clear X. rewrite !exec_msg_exec.
  apply (ofold_sim _ regs_inv msg_wf); auto.
  - intros a0 a0' i Wi R0 S0. rewrite <- (has_grant_sim _ _ _ _ _ S0).
    destruct ((msg_signer i =? ge) || has_grant a0 (msg_signer i) ge (msg_type i)); [|reflexivity]. apply IH; assumption.
  - intros a0 i a1 Wi R0 H. destruct ((msg_signer i =? ge) || has_grant a0 (msg_signer i) ge (msg_type i)); [|discriminate].
    eapply exec_msg_regs; eauto.
  - intros i Hi. eapply msg_wf_inner; eauto.
Qed.

Lemma exec_all_sim a a' t :
  Forall msg_wf (tx_msgs t) -> regs_inv a -> app_sim a a' -> osim app_sim (exec_all a t) (exec_all a' t).
Proof.
  intros F R S. rewrite Forall_forall in F. rewrite !exec_all_ofold.
  apply (ofold_sim _ regs_inv msg_wf); auto.
  - intros a0 a0' m W R0 S0. apply exec_msg_sim; assumption.
  - intros a0 m a1 W R0 H. eapply exec_msg_regs; eauto.
Qed.

Lemma exec_all_regs a t a1 : Forall msg_wf (tx_msgs t) -> exec_all a t = Ok a1 -> regs_inv a -> regs_inv a1.
Proof.
  intros F. rewrite Forall_forall in F.
  apply (exec_all_rel (fun a a' => regs_inv a -> regs_inv a') msg_wf); auto.
  - intros f0 a0 m0 a2 X W H R. eapply exec_leaf_regs; eauto.
  - intros; eapply msg_wf_inner; eauto.
Qed.

(* ---------- the ante chain ---------- *)

Lemma reg_ante_sim pick rs rs' check b e e' t :
  reg_sim rs rs' -> ent_sim e e' -> reg_ante pick rs check b e t = reg_ante pick rs' check b e' t.
Proof.
  intros Sr Se.
  destruct rs as [p nx regs lims recs], rs' as [p' nx' regs' lims' recs']. destruct Sr as [E1 E2 E3 E4 _ _ _].
  cbn [r_params r_next r_regs r_limits] in *. subst p' nx' regs' lims'.
  unfold reg_ante, check_fees, payer_has_funds, check_max_slots, max_slots_table, max_purchasable.
  cbn [r_params r_limits]. rewrite (locked_coin_sim _ _ (tx_payer t) Se). reflexivity.
Qed.

Lemma ante_sim check a a' t : app_sim a a' -> osim app_sim (ante check a t) (ante check a' t).
Proof.
  intros S. pose proof S as [Eb Se Sw Sb Es Eg Ea En]. unfold ante.
  destruct (negb (coins_valid (tx_fee t))); [reflexivity|].
  rewrite <- Eb, <- (reg_ante_sim pick_wrk _ _ check (a_bank a) _ _ t Sw Se),
    <- (reg_ante_sim pick_bcn _ _ check (a_bank a) _ _ t Sb Se).
  destruct (reg_ante pick_wrk (a_wrk a) check (a_bank a) (a_ent a) t) as [u| |]; cbn [obind]; try reflexivity.
  destruct (reg_ante pick_bcn (a_bcn a) check (a_bank a) (a_ent a) t) as [u'| |]; cbn [obind]; try reflexivity.
  assert (U : osim app_sim (unlock_ante a t) (unlock_ante a' t)).
  { unfold unlock_ante. rewrite <- (locked_coin_sim _ _ (tx_payer t) Se), <- Eb.
    destruct (is_registry_tx t && (0 <? snd (locked_coin (a_ent a) (tx_payer t)))); [|exact S].
    apply (osim_bind bsim); [apply unlock_for_fees_sim; exact Se|].
    intros [b1 e1] [b2 e2] [Y1 Y2]. cbn [fst snd] in Y1, Y2. subst b2. cbn [osim]. constructor; cbn; auto. }
  apply (osim_bind app_sim); [exact U|]. clear S Eb Se Sw Sb Es Eg Ea En U. intros a1 a1' S.
  pose proof S as [Eb Se Sw Sb Es Eg Ea En].
  assert (D : osim app_sim (deduct_fee a1 t) (deduct_fee a1' t)).
  { unfold deduct_fee. rewrite <- Ea, <- Eb.
    match goal with |- osim _ (obind ?o _) _ => destruct o as [payer| |] end; cbn [obind]; try reflexivity.
    destruct (tx_fee t) as [|c fee]; [exact S|].
    destruct (negb (can_afford (a_bank a1) payer (c :: fee))); [reflexivity|].
    destruct (send_coins (a_bank a1) payer FEE_COLLECTOR (c :: fee)) as [b1| |]; cbn [obind osim]; auto.
    constructor; cbn; auto. }
  apply (osim_bind app_sim); [exact D|]. intros a2 a2' S2. destruct (tx_sig_ok t); [exact S2 | reflexivity].
Qed.

Lemma ante_regs check a t a1 : ante check a t = Ok a1 -> regs_inv a -> regs_inv a1.
Proof.
  intros H R. apply ante_frame in H as (E1 & E2 & _). unfold regs_inv. rewrite E1, E2. exact R.
Qed.

(* ---------- DeliverTx / CheckTx ---------- *)

Theorem deliver_tx_sim a a' t b r b' r' :
  app_sim a a' -> regs_inv a -> tx_wf t ->
  deliver_tx a t = (b, r) -> deliver_tx a' t = (b', r') -> r = r' /\ app_sim b b' /\ regs_inv b.
Proof.
  intros S R W. unfold deliver_tx. destruct (validate_all t) as [u|c|c].
  2,3: intros [= <- <-] [= <- <-]; auto.
  pose proof (ante_sim false a a' t S) as A.
  destruct (ante false a t) as [a1|c|c] eqn:A1; destruct (ante false a' t) as [a1'|c'|c'] eqn:A2; cbn [osim] in A; try contradiction.
  2,3: subst; intros [= <- <-] [= <- <-]; auto.
  pose proof (ante_regs _ _ _ _ A1 R) as R1.
  pose proof (exec_all_sim a1 a1' t (tw_msgs t W) R1 A) as X.
  destruct (exec_all a1 t) as [a2|c|c] eqn:X1; destruct (exec_all a1' t) as [a2'|c'|c'] eqn:X2; cbn [osim] in X; try contradiction;
    subst; intros [= <- <-] [= <- <-]; auto.
  split; [reflexivity|]. split; [exact X|]. eapply exec_all_regs; eauto. apply W.
Qed.

Theorem check_tx_sim a a' t b r b' r' :
  app_sim a a' -> regs_inv a ->
  check_tx a t = (b, r) -> check_tx a' t = (b', r') -> r = r' /\ app_sim b b' /\ regs_inv b.
Proof.
  intros S R. unfold check_tx. destruct (validate_all t) as [u|c|c].
  2,3: intros [= <- <-] [= <- <-]; auto.
  pose proof (ante_sim true a a' t S) as A.
  destruct (ante true a t) as [a1|c|c] eqn:A1; destruct (ante true a' t) as [a1'|c'|c'] eqn:A2; cbn [osim] in A; try contradiction;
    subst; intros [= <- <-] [= <- <-]; auto.
  split; [reflexivity|]. split; [exact A|]. eapply ante_regs; eauto.
Qed.

(* ---------- BeginBlock ---------- *)

Theorem begin_block_sim a a' now :
  app_sim a a' ->
  match begin_block a now, begin_block a' now with
  | Some b, Some b' => app_sim b b' /\ (regs_inv a -> regs_inv b)
  | None, None => True
  | _, _ => False
  end.
Proof.
  intros [Eb Se Sw Sb Es Eg Ea En]. unfold begin_block. cbn [with_time a_bank a_ent]. rewrite <- Eb.
  pose proof (ent_begin_block_sim (unix now) (a_bank a) _ _ Se) as X.
  destruct (ent_begin_block (unix now) (a_bank a) (a_ent a)) as [[b1 e1]| |];
    destruct (ent_begin_block (unix now) (a_bank a) (a_ent a')) as [[b2 e2]| |]; cbn [osim] in X; try contradiction; auto.
  destruct X as [X1 X2]. cbn [fst snd] in X1, X2. subst b2. split; [constructor; cbn; auto | intros R; exact R].
Qed.

(* ---------- EndBlock: governance parameter updates that keep the enterprise denomination ---------- *)

Definition gov_ok (d : denom) (a : app) : Prop := regs_inv a /\ ep_denom (e_params (a_ent a)) = d.

Lemma gov_msg_sim d f a a' m :
  gov_msg_wf d m -> gov_ok d a -> app_sim a a' -> osim app_sim (exec_msg f a m) (exec_msg f a' m).
Proof.
  intros (u & -> & Hu) [R D] S. destruct f as [|f]; [reflexivity|]. pose proof S as [Eb Se Sw Sb Es Eg Ea En].
  cbn [exec_msg]. cbn [Z.eqb negb GOV_MACC]. change (negb (GOV_MACC =? GOV_MACC)) with false. cbv iota.
  destruct u as [p|p|p|v].
  - rewrite <- Eb. apply (osim_bind ent_sim); [apply ent_set_params_sim; [exact Se | congruence]|].
    intros e1 e2 Y. cbn [osim]. constructor; cbn; auto.
  - destruct (reg_params_valid p); [|reflexivity]. cbn [osim]. constructor; cbn; auto.
    destruct Sw. constructor; cbn; auto.
  - destruct (reg_params_valid p); [|reflexivity]. cbn [osim]. constructor; cbn; auto.
    destruct Sb. constructor; cbn; auto.
  - destruct (str_params_valid v); [|reflexivity]. rewrite <- Eb, <- Es. cbn [osim]. constructor; cbn; auto.
Qed.

Lemma reg_inv_with_params h s g p : reg_params_valid p = true -> reg_inv h s g -> reg_inv h (reg_with_params s p) g.
Proof.
  intros V I. pose proof (reg_inv_set_params h s g p I) as X. unfold reg_set_params in X. rewrite V in X. exact X.
Qed.

Lemma gov_msg_ok d f a m a1 : gov_msg_wf d m -> exec_msg f a m = Ok a1 -> gov_ok d a -> gov_ok d a1.
Proof.
  intros (u & -> & Hu) H [R D]. destruct f as [|f]; [discriminate|]. cbn in H.
  destruct u as [p|p|p|v].
  - step H. injection H as <-. unfold ent_set_params in E. step E. injection E as <-. split; [exact R | exact Hu].
  - step H. injection H as <-. split; [|exact D]. destruct R as [[gw Iw] Rb]. split; [|exact Rb].
    exists gw. cbn [with_wrk a_wrk]. apply reg_inv_with_params; assumption.
  - step H. injection H as <-. split; [|exact D]. destruct R as [Rw [gb Ib]]. split; [exact Rw|].
    exists gb. cbn [with_bcn a_bcn]. apply reg_inv_with_params; assumption.
  - step H. injection H as <-. split; [exact R | exact D].
Qed.

Lemma exec_proposal_sim d a a' ms :
  (forall m, In m ms -> gov_msg_wf d m) -> gov_ok d a -> app_sim a a' ->
  app_sim (exec_proposal a ms) (exec_proposal a' ms) /\ gov_ok d (exec_proposal a ms).
Proof.
  intros W G Sm. rewrite !exec_proposal_ofold.
  pose proof (ofold_sim (fun a1 m => exec_msg (S (S (msg_depth m))) a1 m) (gov_ok d) (gov_msg_wf d)
                (fun a0 a0' m Wm G0 S0 => gov_msg_sim d _ a0 a0' m Wm G0 S0)
                (fun a0 m a1 Wm G0 H => gov_msg_ok d _ a0 m a1 Wm H G0) ms a a' W G Sm) as X.
  destruct (ofold _ ms (Ok a)) as [b|c|c] eqn:E1; destruct (ofold _ ms (Ok a')) as [b'|c'|c'] eqn:E2;
    cbn [osim] in X; try contradiction; try (split; assumption).
  split; [exact X|].
  revert E1. apply (ofold_invariant (fun a1 m => exec_msg (S (S (msg_depth m))) a1 m) (gov_ok d) (gov_msg_wf d)); auto.
  - intros a0 m a1 G0 Wm H. eapply gov_msg_ok; eauto.
  - apply Forall_forall. exact W.
Qed.

Theorem end_block_sim a a' props :
  end_wf a props -> regs_inv a -> app_sim a a' ->
  app_sim (end_block a props) (end_block a' props) /\ regs_inv (end_block a props).
Proof.
  unfold end_wf, end_block. set (d := ep_denom (e_params (a_ent a))). intros W R S.
  assert (G : gov_ok d a) by (split; [exact R | reflexivity]). clearbody d. clear R.
  revert a a' G S. induction props as [|ms rest IH]; intros a a' G S; cbn [fold_left].
  - split; [exact S | apply G].
  - destruct (exec_proposal_sim d a a' ms) as [S1 G1]; auto.
    { intros m Hm. apply (W ms m); [left; reflexivity | exact Hm]. }
    apply IH; auto. intros ms' m H1 H2. apply (W ms' m); [right; exact H1 | exact H2].
Qed.

(* ---------- the node: the original and the re-imported chain in lock step ---------- *)

Definition node_sim (n n' : node) : Prop :=
  (app_sim (n_committed n) (n_committed n') /\ regs_inv (n_committed n)) /\
  (app_sim (n_check n) (n_check n') /\ regs_inv (n_check n)) /\
  match n_deliver n, n_deliver n' with
  | Some a, Some a' => app_sim a a' /\ regs_inv a
  | None, None => True
  | _, _ => False
  end.

Theorem node_step_sim n n' o :
  node_sim n n' -> op_wf n o ->
  match node_step n o, node_step n' o with
  | Some (m, r), Some (m', r') => r = r' /\ node_sim m m'
  | None, None => True
  | _, _ => False
  end.
Proof.
  intros ((Sc & Rc) & (Sk & Rk) & Sd) W. destruct o as [now|t|t|ps| |]; cbn [node_step].
  - pose proof (begin_block_sim _ _ now Sc) as X.
    destruct (begin_block (n_committed n) now) as [b|]; destruct (begin_block (n_committed n') now) as [b'|]; try contradiction; auto.
    destruct X as [X1 X2]. split; [reflexivity|]. split; [exact (conj Sc Rc)|]. split; [exact (conj Sk Rk)|].
    cbn. split; [exact X1 | apply X2; exact Rc].
  - destruct (n_deliver n) as [a|]; destruct (n_deliver n') as [a'|]; try contradiction; auto. destruct Sd as [Sd Rd].
    destruct (deliver_tx a t) as [b r] eqn:E1. destruct (deliver_tx a' t) as [b' r'] eqn:E2.
    destruct (deliver_tx_sim _ _ _ _ _ _ _ Sd Rd W E1 E2) as (-> & X & Y). split; [reflexivity|].
    split; [exact (conj Sc Rc)|]. split; [exact (conj Sk Rk)|]. cbn. split; assumption.
  - destruct (check_tx (n_check n) t) as [b r] eqn:E1. destruct (check_tx (n_check n') t) as [b' r'] eqn:E2.
    destruct (check_tx_sim _ _ _ _ _ _ _ Sk Rk E1 E2) as (-> & X & Y). split; [reflexivity|].
    split; [exact (conj Sc Rc)|]. split; [exact (conj X Y)|]. cbn. exact Sd.
  - cbn [op_wf] in W.
    destruct (n_deliver n) as [a|]; destruct (n_deliver n') as [a'|]; try contradiction; auto. destruct Sd as [Sd Rd].
    destruct (end_block_sim a a' ps W Rd Sd) as [X Y]. split; [reflexivity|].
    split; [exact (conj Sc Rc)|]. split; [exact (conj Sk Rk)|]. cbn. split; assumption.
  - destruct (n_deliver n) as [a|]; destruct (n_deliver n') as [a'|]; try contradiction; auto. destruct Sd as [Sd Rd].
    split; [reflexivity|]. split; [exact (conj Sd Rd)|]. split; [exact (conj Sd Rd) | exact Logic.I].
  - split; [reflexivity|]. split; [exact (conj Sc Rc)|]. split; [exact (conj Sc Rc) | exact Logic.I].
Qed.

(* whole histories: the two chains produce the same results and end in related states *)
Fixpoint node_trace (n : node) (h : list op) : option (node * list (option tx_result)) :=
  match h with
  | [] => Some (n, [])
  | o :: r => match node_step n o with
              | Some (n1, x) => match node_trace n1 r with Some (n2, xs) => Some (n2, x :: xs) | None => None end
              | None => None
              end
  end.

Theorem node_trace_sim h : forall n n',
  node_sim n n' -> hist_wf n h ->
  match node_trace n h, node_trace n' h with
  | Some (m, xs), Some (m', xs') => xs = xs' /\ node_sim m m'
  | None, None => True
  | _, _ => False
  end.
Proof.
  induction h as [|o r IH]; intros n n' S W; cbn [node_trace].
  - split; [reflexivity | exact S].
  - destruct W as [Wo Wr]. pose proof (node_step_sim n n' o S Wo) as X.
    destruct (node_step n o) as [[n1 x]|]; destruct (node_step n' o) as [[n1' x']|]; try contradiction; auto.
    destruct X as [-> S1]. specialize (IH n1 n1' S1 Wr).
    destruct (node_trace n1 r) as [[n2 xs]|]; destruct (node_trace n1' r) as [[n2' xs']|]; try contradiction; auto.
    destruct IH as [-> S2]. split; [reflexivity | exact S2].
Qed.

(* ---------- the headline: the original chain and the chain started from its export ---------- *)

Theorem same_effects_after_import a a' h :
  app_inv a -> regs_inv a -> app_under_cap a -> ent_ordered (a_ent a) ->
  import_app (export_app a) = Some a' -> hist_wf (node_init a) h ->
  match node_trace (node_init a) h, node_trace (node_init a') h with
  | Some (m, xs), Some (m', xs') =>
      xs = xs' /\ node_sim m m' /\ app_equiv (n_committed m) (n_committed m') /\ app_equiv (n_check m) (n_check m')
  | None, None => True
  | _, _ => False
  end.
Proof.
  intros Ia Ir Cap Ho H W. rewrite (import_export_app a Ia Ir) in H. injection H as <-.
  pose proof (app_sim_sym _ _ (app_sim_reimported a Ia Ir Cap Ho)) as S0.
  assert (N0 : node_sim (node_init a) (node_init (app_reimported a))).
  { split; [exact (conj S0 Ir)|]. split; [exact (conj S0 Ir) | exact Logic.I]. }
  pose proof (node_trace_sim h _ _ N0 W) as X.
  destruct (node_trace (node_init a) h) as [[m xs]|]; destruct (node_trace (node_init (app_reimported a)) h) as [[m' xs']|];
    try contradiction; auto.
  destruct X as [E N]. split; [exact E|]. split; [exact N|].
  destruct N as ((Sc & _) & (Sk & _) & _). split; apply app_sim_equiv; assumption.
Qed.

(* one transaction *)
Theorem same_tx_effect_after_import a a' t b r b' r' :
  app_inv a -> regs_inv a -> app_under_cap a -> ent_ordered (a_ent a) ->
  import_app (export_app a) = Some a' -> tx_wf t ->
  deliver_tx a t = (b, r) -> deliver_tx a' t = (b', r') -> r = r' /\ app_sim b b' /\ app_equiv b b'.
Proof.
  intros Ia Ir Cap Ho H W E1 E2. rewrite (import_export_app a Ia Ir) in H. injection H as <-.
  pose proof (app_sim_sym _ _ (app_sim_reimported a Ia Ir Cap Ho)) as S0.
  destruct (deliver_tx_sim _ _ _ _ _ _ _ S0 Ir W E1 E2) as (Er & X & _).
  split; [exact Er|]. split; [exact X | apply app_sim_equiv; exact X].
Qed.

(* ---------- reachability: the registry invariants along node histories, and the round trip of any
              reachable committed state ---------- *)

Lemma node_trace_run h : forall n, node_run n h = option_map fst (node_trace n h).
Proof.
  induction h as [|o r IH]; intros n; cbn [node_run node_trace]; [reflexivity|].
  destruct (node_step n o) as [[n1 x]|]; [|reflexivity]. rewrite IH.
  destruct (node_trace n1 r) as [[n2 xs]|]; reflexivity.
Qed.

Theorem regs_inv_node_run g h n :
  regs_inv g -> hist_wf (node_init g) h -> node_run (node_init g) h = Some n ->
  regs_inv (n_committed n) /\ regs_inv (n_check n) /\
  match n_deliver n with Some a => regs_inv a | None => True end.
Proof.
  intros R W H. pose proof (app_sim_refl g R) as S0.
  assert (N0 : node_sim (node_init g) (node_init g)).
  { split; [exact (conj S0 R)|]. split; [exact (conj S0 R) | exact Logic.I]. }
  pose proof (node_trace_sim h _ _ N0 W) as X. rewrite node_trace_run in H.
  destruct (node_trace (node_init g) h) as [[m xs]|]; [|discriminate]. cbn in H. injection H as ->.
  destruct X as (_ & (_ & Rc) & (_ & Rk) & D). split; [exact Rc|]. split; [exact Rk|].
  destruct (n_deliver n); [apply D | exact Logic.I].
Qed.

Theorem roundtrip_reachable g h n a' :
  app_inv g -> regs_inv g -> ent_ordered (a_ent g) ->
  hist_wf (node_init g) h -> node_run (node_init g) h = Some n ->
  app_under_cap (n_committed n) ->
  import_app (export_app (n_committed n)) = Some a' ->
  app_equiv a' (n_committed n) /\ export_app a' = export_app (n_committed n) /\
  app_inv a' /\ regs_inv a' /\ app_sim a' (n_committed n).
Proof.
  intros Ia Ir Ho W H Cap E.
  destruct (app_inv_node_run g h n Ia W H) as (Ic & _).
  destruct (regs_inv_node_run g h n Ir W H) as (Rc & _).
  destruct (ent_ordered_node_run g h n Ia Ho W H) as (Oc & _).
  split; [eapply roundtrip_observables; eauto|]. split; [eapply export_idempotent; eauto|].
  split; [apply (invariants_after_import _ _ Ic Rc E)|]. split; [eapply regs_inv_after_import; eauto|].
  rewrite (import_export_app _ Ic Rc) in E. injection E as <-. apply app_sim_reimported; assumption.
Qed.

(* a genesis with empty registries and an empty enterprise module satisfies the side conditions *)
Lemma regs_inv_init a pw sw pb sb :
  a_wrk a = reg_init pw sw -> a_bcn a = reg_init pb sb ->
  reg_params_valid pw = true -> reg_params_valid pb = true -> 1 <= sw -> 1 <= sb -> regs_inv a.
Proof.
  intros Ew Ebn Vw Vb Hw Hb. split; exists ghost_init; [rewrite Ew | rewrite Ebn]; apply reg_inv_init; assumption.
Qed.
