(* The application-level theorems of proofs/App*.v restated for the application that runs the GENERATED code
   (model/GeneratedApp.v): each is the equality of proofs/GeneratedAppEq.v followed by the original theorem.
   The hypotheses added to the originals are those of the equality used:
     - histories:  [gen_inv B g] (resp. [gnode_inv B n]), [hist_wf], [ghist_ok h], [B + hist_size h < two63];
     - one DeliverTx: [gen_inv B a], [tx_wf t], [Forall gmsg_ok (tx_msgs t)], [B + leaves_l (tx_msgs t) < two63];
     - one CheckTx:  [gen_inv B a], [tx_wf t], [Forall gmsg_ok (tx_msgs t)];
     - BeginBlock:   [gen_inv B a], [B < two63], [begin_wf a now];
     - EndBlock:     proposals made of parameter updates. *)
From Coq Require Import ZArith Lia List String Bool.
From MC Require Import lib.Prelude lib.AMap lib.GoSdk model.Bank model.Stream model.StreamSpec model.Registry
  model.RegistrySpec model.Enterprise model.EnterpriseSpec model.App model.AppSpec model.GeneratedApp.
From MC Require Import proofs.BankProofs proofs.AppFrame proofs.AppParamsProofs proofs.AppAuthProofs proofs.AppFeeProofs
  proofs.AppInv proofs.AppLockedProofs proofs.AppSupplyProofs proofs.AppCrashProofs.
From MC Require Import proofs.GeneratedAppEq.
Import ListNotations.
Local Open Scope Z_scope.

(* ================================================================================================ *)
(* 0. histories: prefixes and suffixes                                                               *)
(* ================================================================================================ *)

Lemma hist_wf_app h1 : forall n h2,
  hist_wf n (h1 ++ h2) -> hist_wf n h1 /\ (forall n1, node_run n h1 = Some n1 -> hist_wf n1 h2).
Proof.
  induction h1 as [|o h1 IH]; intros n h2 W.
  - split; [exact I|]. intros n1 [= <-]. exact W.
  - cbn [List.app hist_wf] in W. destruct W as [Wo Wr]. cbn [hist_wf node_run].
    destruct (node_step n o) as [[n' x]|].
    + destruct (IH n' h2 Wr) as [W1 W2]. split; [split; assumption|exact W2].
    + split; [split; [exact Wo|exact I]|discriminate].
Qed.

Lemma hist_size_app h1 h2 : hist_size (h1 ++ h2) = hist_size h1 + hist_size h2.
Proof.
  unfold hist_size, sumsz. induction h1 as [|o h1 IH]; cbn [List.app fold_right]; [lia|]. rewrite IH. lia.
Qed.

Lemma ghist_ok_app h1 h2 : ghist_ok (h1 ++ h2) <-> ghist_ok h1 /\ ghist_ok h2.
Proof. unfold ghist_ok. apply Forall_app. Qed.

Lemma go_node_trace_run h : forall n, option_map fst (go_node_trace n h) = go_node_run n h.
Proof.
  induction h as [|o r IH]; intros n; cbn; [reflexivity|].
  destruct (go_node_step n o) as [[n' x]|]; [|reflexivity].
  rewrite <- IH. destruct (go_node_trace n' r) as [[n'' xs]|]; reflexivity.
Qed.

(* ================================================================================================ *)
(* 1. every point of every well-formed history from a genesis                                        *)
(* ================================================================================================ *)

Section FromGenesis.
  Variables (B : Z) (g : app) (h : list op) (n : node).
  Hypothesis I : gen_inv B g.
  Hypothesis W : hist_wf (node_init g) h.
  Hypothesis G : ghist_ok h.
  Hypothesis L : B + hist_size h < two63.
  Hypothesis H : go_node_run (node_init g) h = Some n.

  Lemma gen_run_is_model_run : node_run (node_init g) h = Some n.
  Proof. rewrite <- (gen_node_run_eq B g h I W G L). exact H. Qed.

  (* proofs/AppInv.v: app_inv_node_run *)
  Theorem gen_app_inv_node_run :
    app_inv (n_committed n) /\ app_inv (n_check n) /\ match n_deliver n with Some a => app_inv a | None => True end.
  Proof. exact (app_inv_node_run g h n (proj1 I) W gen_run_is_model_run). Qed.

  (* the invariant the equality itself needs, at the node reached *)
  Theorem gen_gnode_inv_node_run : gnode_inv (B + hist_size h) n.
  Proof. exact (gnode_inv_run B (node_init g) h n (gnode_inv_init B g I) W G L gen_run_is_model_run). Qed.

  (* proofs/AppSupplyProofs.v: balances_sum_to_supply (C01) *)
  Theorem gen_balances_sum_to_supply :
    (forall d, total_balance (a_bank (n_committed n)) d = supply_of (a_bank (n_committed n)) d) /\
    (forall d, total_balance (a_bank (n_check n)) d = supply_of (a_bank (n_check n)) d) /\
    match n_deliver n with
    | Some a => forall d, total_balance (a_bank a) d = supply_of (a_bank a) d
    | None => True
    end.
  Proof. exact (balances_sum_to_supply g h n (proj1 I) W gen_run_is_model_run). Qed.

  (* proofs/AppLockedProofs.v: books_balance_reachable_app (C03), escrow_backed_reachable_app (C10) *)
  Theorem gen_books_balance_reachable_app :
    books_clauses (n_committed n) /\ books_clauses (n_check n) /\
    match n_deliver n with Some a => books_clauses a | None => True end.
  Proof. exact (books_balance_reachable_app g h n (proj1 I) W gen_run_is_model_run). Qed.

  Theorem gen_escrow_backed_reachable_app :
    escrow_backed (a_bank (n_committed n)) (a_str (n_committed n)) /\
    escrow_backed (a_bank (n_check n)) (a_str (n_check n)) /\
    match n_deliver n with Some a => escrow_backed (a_bank a) (a_str a) | None => True end.
  Proof. exact (escrow_backed_reachable_app g h n (proj1 I) W gen_run_is_model_run). Qed.

  (* proofs/AppParamsProofs.v: params_valid_reachable (C16) *)
  Theorem gen_params_valid_reachable : node_params_ok n.
  Proof. exact (params_valid_reachable g h n (ai_params g (proj1 I)) gen_run_is_model_run). Qed.

  (* proofs/AppSupplyProofs.v: blockers_never_panic, begin_never_panics *)
  Theorem gen_blockers_never_panic o :
    op_wf n o -> gop_ok o -> B + hist_size h + op_size o < two63 ->
    match o with
    | OpBegin _ => n_deliver n = None
    | OpEnd _ | OpCommit => n_deliver n <> None
    | _ => False
    end ->
    go_node_step n o <> None.
  Proof.
    intros Wo Go Lo Ph. rewrite (gen_node_step_eq _ n o gen_gnode_inv_node_run Wo Go Lo).
    exact (blockers_never_panic g h n o (proj1 I) W gen_run_is_model_run Wo Ph).
  Qed.

  Theorem gen_begin_never_panics now : op_wf n (OpBegin now) -> go_node_step n (OpBegin now) <> None.
  Proof.
    intros Wo. pose proof (hist_size_nonneg h) as S0.
    rewrite (gen_node_step_eq _ n (OpBegin now) gen_gnode_inv_node_run Wo Logic.I ltac:(cbn [op_size]; lia)).
    exact (begin_never_panics g h n now (proj1 I) W gen_run_is_model_run Wo).
  Qed.
End FromGenesis.

(* proofs/AppSupplyProofs.v: chain_never_halts *)
Theorem gen_chain_never_halts B n h :
  gnode_inv B n -> hist_wf n h -> ghist_ok h -> B + hist_size h < two63 ->
  phased (match n_deliver n with Some _ => true | None => false end) h ->
  go_node_run n h <> None.
Proof.
  intros I W G L P. rewrite (gen_node_run_eq_from B n h I W G L).
  apply chain_never_halts; auto. destruct I as ((Ic & _) & (Ik & _) & Id).
  split; [exact Ic|split; [exact Ik|]]. destruct (n_deliver n); [apply Id|exact Logic.I].
Qed.

(* ================================================================================================ *)
(* 2. crash and recovery (proofs/AppCrashProofs.v, C19)                                              *)
(* ================================================================================================ *)

Theorem gen_results_function_of_inputs B n n' now txs props :
  gnode_inv B n -> gnode_inv B n' ->
  hist_wf n (block_ops now txs props) -> hist_wf n' (block_ops now txs props) ->
  ghist_ok (block_ops now txs props) -> B + hist_size (block_ops now txs props) < two63 ->
  n_committed n = n_committed n' -> n_deliver n = None -> n_deliver n' = None ->
  option_map n_committed (go_node_run n (block_ops now txs props)) =
  option_map n_committed (go_node_run n' (block_ops now txs props)) /\
  option_map n_deliver (go_node_run n (block_ops now txs props)) =
  option_map n_deliver (go_node_run n' (block_ops now txs props)) /\
  option_map snd (go_node_trace n (block_ops now txs props)) =
  option_map snd (go_node_trace n' (block_ops now txs props)).
Proof.
  intros I I' W W' G L Ec Hd Hd'.
  rewrite (gen_node_run_eq_from B n _ I W G L), (gen_node_run_eq_from B n' _ I' W' G L).
  rewrite (gen_node_trace_eq_from _ B n I W G L), (gen_node_trace_eq_from _ B n' I' W' G L).
  exact (results_function_of_inputs n n' now txs props Ec Hd Hd').
Qed.

(* a crash anywhere inside the block, then the replay of the block *)
Theorem gen_crash_replay B n now txs props pre suf n1 :
  gnode_inv B n ->
  hist_wf n (pre ++ OpCrash :: block_ops now txs props) -> hist_wf n (block_ops now txs props) ->
  ghist_ok pre -> ghist_ok (block_ops now txs props) ->
  B + hist_size pre + hist_size (block_ops now txs props) < two63 ->
  n_deliver n = None ->
  pre ++ suf = block_body now txs props ->
  go_node_run n pre = Some n1 ->
  exists n2,
    go_node_step n1 OpCrash = Some (n2, None) /\
    n_committed n2 = n_committed n /\ n_deliver n2 = None /\ n_check n2 = n_committed n /\
    option_map n_committed (go_node_run n2 (block_ops now txs props)) =
    option_map n_committed (go_node_run n (block_ops now txs props)) /\
    option_map n_deliver (go_node_run n2 (block_ops now txs props)) =
    option_map n_deliver (go_node_run n (block_ops now txs props)) /\
    option_map snd (go_node_trace n2 (block_ops now txs props)) =
    option_map snd (go_node_trace n (block_ops now txs props)).
Proof.
  intros I W Wb Gp Gb L Hd Hpre Hrun.
  pose proof (hist_size_nonneg pre) as S0. pose proof (hist_size_nonneg (block_ops now txs props)) as S1.
  destruct (hist_wf_app pre n _ W) as [Wp Ws].
  rewrite (gen_node_run_eq_from B n pre I Wp Gp ltac:(lia)) in Hrun.
  pose proof (gnode_inv_run B n pre n1 I Wp Gp ltac:(lia) Hrun) as I1.
  specialize (Ws n1 Hrun). cbn [hist_wf] in Ws. destruct Ws as [_ Ws].
  destruct (crash_replay n now txs props pre suf n1 Hd Hpre Hrun) as (n2 & S & E1 & E2 & E3 & R1 & R2 & R3).
  rewrite S in Ws.
  assert (I2 : gnode_inv (B + hist_size pre) n2).
  { pose proof (gnode_inv_step _ n1 OpCrash n2 None I1 Logic.I Logic.I ltac:(cbn [op_size]; lia) S) as X.
    cbn [op_size] in X. rewrite Z.add_0_r in X. exact X. }
  exists n2. split; [exact S|]. repeat (split; [assumption|]).
  rewrite (gen_node_run_eq_from _ n2 _ I2 Ws Gb ltac:(lia)), (gen_node_run_eq_from B n _ I Wb Gb ltac:(lia)).
  rewrite (gen_node_trace_eq_from _ _ n2 I2 Ws Gb ltac:(lia)), (gen_node_trace_eq_from _ B n I Wb Gb ltac:(lia)).
  repeat split; assumption.
Qed.

Theorem gen_crash_after_commit n n1 n2 :
  go_node_step n OpCommit = Some (n1, None) -> go_node_step n1 OpCrash = Some (n2, None) ->
  n_committed n2 = n_committed n1 /\ n_deliver n2 = None /\ n_check n2 = n_committed n1 /\
  n2 = n1 /\ n_deliver n = Some (n_committed n1).
Proof. exact (crash_after_commit n n1 n2). Qed.

Theorem gen_crash_between_blocks n n2 :
  n_deliver n = None -> go_node_step n OpCrash = Some (n2, None) ->
  n_committed n2 = n_committed n /\ n_deliver n2 = n_deliver n.
Proof. exact (crash_between_blocks n n2). Qed.

(* the whole block, crash-free vs. crash + replay, as one statement about histories *)
Theorem gen_crash_replay_history B n now txs props pre suf :
  gnode_inv B n ->
  hist_wf n (pre ++ OpCrash :: block_ops now txs props) -> hist_wf n (block_ops now txs props) ->
  ghist_ok pre -> ghist_ok (block_ops now txs props) ->
  B + hist_size pre + hist_size (block_ops now txs props) < two63 ->
  n_deliver n = None -> pre ++ suf = block_body now txs props ->
  go_node_run n pre <> None ->
  option_map n_committed (go_node_run n (pre ++ OpCrash :: block_ops now txs props)) =
  option_map n_committed (go_node_run n (block_ops now txs props)).
Proof.
  intros I W Wb Gp Gb L Hd Hpre Hrun.
  pose proof (hist_size_nonneg pre) as S0. pose proof (hist_size_nonneg (block_ops now txs props)) as S1.
  destruct (hist_wf_app pre n _ W) as [Wp _].
  rewrite (gen_node_run_eq_from B n pre I Wp Gp ltac:(lia)) in Hrun.
  assert (Gall : ghist_ok (pre ++ OpCrash :: block_ops now txs props)).
  { apply ghist_ok_app. split; [exact Gp|]. apply Forall_cons; [exact Logic.I|exact Gb]. }
  assert (Lall : B + hist_size (pre ++ OpCrash :: block_ops now txs props) < two63).
  { rewrite hist_size_app. change (hist_size (OpCrash :: block_ops now txs props))
      with (0 + hist_size (block_ops now txs props)). lia. }
  rewrite (gen_node_run_eq_from B n _ I W Gall Lall), (gen_node_run_eq_from B n _ I Wb Gb ltac:(lia)).
  exact (crash_replay_history n now txs props pre suf Hd Hpre Hrun).
Qed.

(* ================================================================================================ *)
(* 3. one DeliverTx / CheckTx / BeginBlock / EndBlock                                                *)
(* ================================================================================================ *)

Section Deliver.
  Variables (B : Z) (a : app) (t : tx) (a' : app) (r : tx_result).
  Hypothesis I : gen_inv B a.
  Hypothesis W : tx_wf t.
  Hypothesis G : Forall gmsg_ok (tx_msgs t).
  Hypothesis L : B + leaves_l (tx_msgs t) < two63.
  Hypothesis H : go_deliver_tx a t = (a', r).

  Lemma gen_deliver_is_model : deliver_tx a t = (a', r).
  Proof. rewrite <- (gen_app_deliver_tx_eq B a t W G I L). exact H. Qed.

  Lemma signers_nonneg : forall m, In m (tx_msgs t) -> 0 <= msg_signer m.
  Proof. intros m Hm. apply msg_wf_signer. pose proof (tw_msgs t W) as F. rewrite Forall_forall in F. auto. Qed.

  (* proofs/AppInv.v *)
  Theorem gen_app_inv_deliver : app_inv a'.
  Proof. exact (app_inv_deliver a t a' r gen_deliver_is_model W (proj1 I)). Qed.

  (* proofs/AppSupplyProofs.v (C01) *)
  Theorem gen_deliver_keeps_supply :
    forall d, supply_of (a_bank a') d = supply_of (a_bank a) d /\
              total_balance (a_bank a') d = total_balance (a_bank a) d.
  Proof. exact (deliver_keeps_supply a t a' r gen_deliver_is_model). Qed.

  (* proofs/AppFrame.v (C14) *)
  Theorem gen_failed_tx_atomic :
    match r with
    | TxOk => True
    | TxRejected _ => a' = a
    | TxPanicked 0 _ => a' = a
    | TxPanicked 1 _ => a' = a
    | TxFailed _ => go_ante false a t = Ok a'
    | TxPanicked _ _ => go_ante false a t = Ok a'
    end.
  Proof. rewrite (gen_app_ante_deliver_eq a t (proj1 I)). exact (failed_tx_atomic a t a' r gen_deliver_is_model). Qed.

  Theorem gen_failed_tx_module_state : r <> TxOk ->
    a_wrk a' = a_wrk a /\ a_bcn a' = a_bcn a /\ a_str a' = a_str a /\
    a_grants a' = a_grants a /\ a_allow a' = a_allow a /\ a_now a' = a_now a /\
    ent_core (a_ent a') = ent_core (a_ent a) /\
    (is_registry_tx t = false -> module_state a' = module_state a).
  Proof. exact (failed_tx_module_state a t a' r gen_deliver_is_model). Qed.

  (* proofs/AppLockedProofs.v (C05, C04, C10) *)
  Theorem gen_deliver_rule :
    exists u, unlocked_by a a' t u /\ (u <> 0 -> exists a1, go_ante false a t = Ok a1).
  Proof. rewrite (gen_app_ante_deliver_eq a t (proj1 I)). exact (deliver_rule a t a' r gen_deliver_is_model (proj1 I) W). Qed.

  Theorem gen_unlock_rule : unlock_rule_at false a a' t.
  Proof. exact (unlock_rule a t a' r (proj1 I) W gen_deliver_is_model). Qed.

  Theorem gen_rejected_tx_changes_nothing :
    (exists c, r = TxRejected c \/ r = TxPanicked 0 c \/ r = TxPanicked 1 c) -> a' = a.
  Proof. exact (rejected_tx_changes_nothing a t a' r gen_deliver_is_model). Qed.

  Theorem gen_user_tx_cannot_move_escrow :
    let d := ep_denom (e_params (a_ent a)) in
    let l := snd (locked_coin (a_ent a) (tx_payer t)) in
    let l' := snd (locked_coin (a_ent a') (tx_payer t)) in
    (forall d', balance (a_bank a') ENT_MACC d' = balance (a_bank a) ENT_MACC d' - (if d' =? d then l - l' else 0)) /\
    0 <= l - l' /\
    (forall d', balance (a_bank a') ENT_MACC d' <> balance (a_bank a) ENT_MACC d' ->
       d' = d /\ is_registry_tx t = true /\ (exists a1, go_ante false a t = Ok a1) /\
       l - l' = Z.min (fee_amount_of (tx_fee t) d) l).
  Proof.
    rewrite (gen_app_ante_deliver_eq a t (proj1 I)).
    exact (user_tx_cannot_move_escrow a t a' r (proj1 I) W gen_deliver_is_model).
  Qed.

  Theorem gen_tx_without_stream_keeps_escrow : forallb no_str (tx_msgs t) = true ->
    forall d, balance (a_bank a') STREAM_MACC d = balance (a_bank a) STREAM_MACC d.
  Proof. exact (tx_without_stream_keeps_escrow a t a' r gen_deliver_is_model W). Qed.

  (* proofs/AppAuthProofs.v (C13) *)
  Theorem gen_user_tx_cannot_update_params :
    e_params (a_ent a') = e_params (a_ent a) /\ r_params (a_wrk a') = r_params (a_wrk a) /\
    r_params (a_bcn a') = r_params (a_bcn a) /\ s_valfee (a_str a') = s_valfee (a_str a).
  Proof. exact (user_tx_cannot_update_params a t a' r gen_deliver_is_model signers_nonneg (ai_grants a (proj1 I))). Qed.

  Theorem gen_no_module_grants_invariant : forall g, In g (a_grants a') -> 0 <= fst (fst g).
  Proof. exact (no_module_grants_invariant a t a' r gen_deliver_is_model signers_nonneg (ai_grants a (proj1 I))). Qed.

  Theorem gen_signature_required : tx_sig_ok t = false -> a' = a /\ r <> TxOk.
  Proof. exact (signature_required a t a' r gen_deliver_is_model). Qed.

  (* proofs/AppParamsProofs.v (C16) *)
  Theorem gen_deliver_tx_params_ok : params_ok a'.
  Proof. exact (deliver_tx_params_ok a t a' r gen_deliver_is_model (ai_params a (proj1 I))). Qed.
End Deliver.

Section Check.
  Variables (B : Z) (a : app) (t : tx) (a' : app) (r : tx_result).
  Hypothesis I : gen_inv B a.
  Hypothesis W : tx_wf t.
  Hypothesis G : Forall gmsg_ok (tx_msgs t).
  Hypothesis H : go_check_tx a t = (a', r).

  Lemma gen_check_is_model : check_tx a t = (a', r).
  Proof. rewrite <- (gen_app_check_tx_eq B a t W G I). exact H. Qed.

  Theorem gen_app_inv_check : app_inv a'.
  Proof. exact (app_inv_check a t a' r gen_check_is_model W (proj1 I)). Qed.

  Theorem gen_check_keeps_supply :
    forall d, supply_of (a_bank a') d = supply_of (a_bank a) d /\
              total_balance (a_bank a') d = total_balance (a_bank a) d.
  Proof. exact (check_keeps_supply a t a' r gen_check_is_model). Qed.

  (* CheckTx runs the ante chain only (C14) *)
  Theorem gen_check_tx_never_executes : (r = TxOk -> go_ante true a t = Ok a') /\ (r <> TxOk -> a' = a).
  Proof. rewrite (gen_app_ante_eq true B a t I (tw_msgs t W)). exact (check_tx_never_executes a t a' r gen_check_is_model). Qed.

  Theorem gen_check_rule :
    exists u, unlocked_by a a' t u /\ (u <> 0 -> r = TxOk /\ go_ante true a t = Ok a').
  Proof. rewrite (gen_app_ante_eq true B a t I (tw_msgs t W)). exact (check_rule a t a' r gen_check_is_model (proj1 I) W). Qed.

  Theorem gen_check_tx_same_rule : unlock_rule_at true a a' t.
  Proof. exact (check_tx_same_rule a t a' r (proj1 I) W gen_check_is_model). Qed.

  Theorem gen_signature_required_check : tx_sig_ok t = false -> a' = a /\ r <> TxOk.
  Proof. exact (signature_required_check a t a' r gen_check_is_model). Qed.

  Theorem gen_check_tx_params_ok : params_ok a'.
  Proof. exact (check_tx_params_ok a t a' r gen_check_is_model (ai_params a (proj1 I))). Qed.
End Check.

(* the exact-fee rule of the two decorators (proofs/AppFeeProofs.v, C06), for a transaction the generated CheckTx accepts *)
Theorem gen_exact_fee_wrk B a t a' :
  gen_inv B a -> tx_wf t -> Forall gmsg_ok (tx_msgs t) ->
  go_check_tx a t = (a', TxOk) -> has_wrk t = true ->
  exists amt, fee_find (tx_fee t) (rp_denom (r_params (a_wrk a))) = Some (rp_denom (r_params (a_wrk a)), amt) /\
    amt = expected_fee pick_wrk (a_wrk a) t /\
    amt <= balance (a_bank a) (tx_payer t) (rp_denom (r_params (a_wrk a))) +
           (if fst (locked_coin (a_ent a) (tx_payer t)) =? rp_denom (r_params (a_wrk a))
            then snd (locked_coin (a_ent a) (tx_payer t)) else 0).
Proof.
  intros I W G H Hw. apply (exact_fee_wrk_nodup a t a'); [|exact Hw|exact (tw_fee t W)].
  exact (gen_check_is_model B a t a' TxOk I W G H).
Qed.

Theorem gen_exact_fee_bcn B a t a' :
  gen_inv B a -> tx_wf t -> Forall gmsg_ok (tx_msgs t) ->
  go_check_tx a t = (a', TxOk) -> has_bcn t = true ->
  exists amt, fee_find (tx_fee t) (rp_denom (r_params (a_bcn a))) = Some (rp_denom (r_params (a_bcn a)), amt) /\
    amt = expected_fee pick_bcn (a_bcn a) t /\
    amt <= balance (a_bank a) (tx_payer t) (rp_denom (r_params (a_bcn a))) +
           (if fst (locked_coin (a_ent a) (tx_payer t)) =? rp_denom (r_params (a_bcn a))
            then snd (locked_coin (a_ent a) (tx_payer t)) else 0).
Proof.
  intros I W G H Hb. apply (exact_fee_bcn_nodup a t a'); [|exact Hb|exact (tw_fee t W)].
  exact (gen_check_is_model B a t a' TxOk I W G H).
Qed.

(* a purchase of 2^63 slots or more is never accepted by the generated CheckTx *)
Theorem gen_overflow_slots_rejected B a t o id n :
  gen_inv B a -> tx_wf t -> Forall gmsg_ok (tx_msgs t) ->
  (In (MWrk (RPurchase o id n)) (tx_msgs t) \/ In (MBcn (RPurchase o id n)) (tx_msgs t)) -> two63 <= n ->
  exists r, go_check_tx a t = (a, r) /\ r <> TxOk.
Proof.
  intros I W G Hin N. rewrite (gen_app_check_tx_eq B a t W G I). exact (overflow_slots_rejected a t o id n Hin N).
Qed.

Section Begin.
  Variables (B : Z) (a : app) (now : Z) (a' : app).
  Hypothesis I : gen_inv B a.
  Hypothesis HB : B < two63.
  Hypothesis W : begin_wf a now.
  Hypothesis H : go_begin_block a now = Some a'.

  Lemma gen_begin_is_model : begin_block a now = Some a'.
  Proof.
    destruct W as (W1 & W2 & W3 & W4). rewrite <- (gen_app_begin_block_eq B a now I HB W3 W4). exact H.
  Qed.

  Theorem gen_app_inv_begin : app_inv a'.
  Proof. exact (app_inv_begin a now a' gen_begin_is_model W (proj1 I)). Qed.

  (* the only place where supply changes: the accepted orders are minted (C01, C02) *)
  Theorem gen_begin_block_supply_delta :
    forall d, supply_of (a_bank a') d - supply_of (a_bank a) d =
              if d =? ep_denom (e_params (a_ent a)) then accepted_total (a_ent a) else 0.
  Proof. exact (proj1 (begin_block_supply_delta a now a' (proj1 I) W gen_begin_is_model)). Qed.

  (* completion mints into the locked balance and leaves every liquid balance alone (C02, C05) *)
  Theorem gen_completion_keeps_spendable : forall x d, 0 <= x -> balance (a_bank a') x d = balance (a_bank a) x d.
  Proof. exact (completion_keeps_spendable a now a' (proj1 I) W gen_begin_is_model). Qed.

  Theorem gen_completion_locks :
    forall x, snd (locked_coin (a_ent a') x) - snd (locked_coin (a_ent a) x) =
              asum (fun o => if (po_status o =? ST_ACCEPTED) && (po_purchaser o =? x) then po_amount o else 0)
                   (e_pos (a_ent a)).
  Proof. exact (completion_locks a now a' (proj1 I) W gen_begin_is_model). Qed.

  Theorem gen_begin_block_keeps_stream_escrow :
    forall d, balance (a_bank a') STREAM_MACC d = balance (a_bank a) STREAM_MACC d.
  Proof. exact (begin_block_keeps_stream_escrow a now a' (proj1 I) W gen_begin_is_model). Qed.

  Theorem gen_begin_block_params : params_of a' = params_of a.
  Proof. exact (begin_block_params a now a' gen_begin_is_model). Qed.
End Begin.

(* BeginBlock of the generated application does not panic on a state satisfying the invariant *)
Theorem gen_begin_block_total B a now :
  gen_inv B a -> B < two63 -> begin_wf a now -> go_begin_block a now <> None.
Proof.
  intros I HB W. destruct W as (W1 & W2 & W3 & W4).
  rewrite (gen_app_begin_block_eq B a now I HB W3 W4).
  apply begin_block_total; [exact (proj1 I)|repeat split; assumption].
Qed.

(* EndBlock: governance's parameter updates move no coin and keep the parameters valid *)
Theorem gen_end_block_keeps_supply a props :
  (forall ms m, In ms props -> In m ms -> is_param_update m = true) ->
  forall d, supply_of (a_bank (go_end_block a props)) d = supply_of (a_bank a) d /\
            total_balance (a_bank (go_end_block a props)) d = total_balance (a_bank a) d.
Proof. intros P. rewrite (gen_app_end_block_eq a props P). exact (end_block_keeps_supply a props). Qed.

Theorem gen_end_block_params_ok a props :
  (forall ms m, In ms props -> In m ms -> is_param_update m = true) ->
  params_ok a -> params_ok (go_end_block a props).
Proof. intros P. rewrite (gen_app_end_block_eq a props P). exact (end_block_params_ok props a). Qed.

Theorem gen_app_inv_end a props :
  end_wf a props -> app_inv a -> app_inv (go_end_block a props).
Proof.
  intros W I. rewrite gen_app_end_block_eq; [exact (app_inv_end a props W I)|].
  intros ms m H1 H2. destruct (W ms m H1 H2) as (u & -> & _). reflexivity.
Qed.

Print Assumptions gen_app_inv_node_run.
Print Assumptions gen_gnode_inv_node_run.
Print Assumptions gen_balances_sum_to_supply.
Print Assumptions gen_books_balance_reachable_app.
Print Assumptions gen_escrow_backed_reachable_app.
Print Assumptions gen_params_valid_reachable.
Print Assumptions gen_blockers_never_panic.
Print Assumptions gen_begin_never_panics.
Print Assumptions gen_chain_never_halts.
Print Assumptions gen_results_function_of_inputs.
Print Assumptions gen_crash_replay.
Print Assumptions gen_crash_after_commit.
Print Assumptions gen_crash_between_blocks.
Print Assumptions gen_crash_replay_history.
Print Assumptions gen_app_inv_deliver.
Print Assumptions gen_deliver_keeps_supply.
Print Assumptions gen_failed_tx_atomic.
Print Assumptions gen_failed_tx_module_state.
Print Assumptions gen_deliver_rule.
Print Assumptions gen_unlock_rule.
Print Assumptions gen_rejected_tx_changes_nothing.
Print Assumptions gen_user_tx_cannot_move_escrow.
Print Assumptions gen_tx_without_stream_keeps_escrow.
Print Assumptions gen_user_tx_cannot_update_params.
Print Assumptions gen_no_module_grants_invariant.
Print Assumptions gen_signature_required.
Print Assumptions gen_deliver_tx_params_ok.
Print Assumptions gen_app_inv_check.
Print Assumptions gen_check_keeps_supply.
Print Assumptions gen_check_tx_never_executes.
Print Assumptions gen_check_rule.
Print Assumptions gen_check_tx_same_rule.
Print Assumptions gen_signature_required_check.
Print Assumptions gen_check_tx_params_ok.
Print Assumptions gen_exact_fee_wrk.
Print Assumptions gen_exact_fee_bcn.
Print Assumptions gen_overflow_slots_rejected.
Print Assumptions gen_app_inv_begin.
Print Assumptions gen_begin_block_supply_delta.
Print Assumptions gen_completion_keeps_spendable.
Print Assumptions gen_completion_locks.
Print Assumptions gen_begin_block_keeps_stream_escrow.
Print Assumptions gen_begin_block_total.
Print Assumptions gen_end_block_keeps_supply.
Print Assumptions gen_end_block_params_ok.
Print Assumptions gen_app_inv_end.
