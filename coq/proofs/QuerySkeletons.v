(* The list-query handlers around the translated callbacks (which prefix store and which page request they hand to the
   SDK's FilteredPaginate / GenericFilteredPaginate, and what they do with the result) are not translated: the SDK call
   is the hand-written pagination model.  What the model and the callback theorems assume about those handlers was read
   from exactly these bodies (digest of each handler with the callback bodies blanked, comments stripped; re-derived from
   /repo on every run). *)
From Coq Require Import String List.
From MC Require GeneratedWrkchainKeeper GeneratedBeaconKeeper GeneratedEnterpriseKeeper GeneratedKeys.
Import ListNotations.
Local Open Scope string_scope.

Lemma wrkchain_list_query_skeletons_as_reviewed :
  GeneratedWrkchainKeeper.wrkchain_list_query_skeletons = [("WrkChainsFiltered", "e8ba98f76c026ea6")].
Proof. reflexivity. Qed.
Lemma beacon_list_query_skeletons_as_reviewed :
  GeneratedBeaconKeeper.beacon_list_query_skeletons = [("BeaconsFiltered", "546d046deafc523c")].
Proof. reflexivity. Qed.
Lemma enterprise_list_query_skeletons_as_reviewed :
  GeneratedEnterpriseKeeper.enterprise_list_query_skeletons = [("EnterpriseUndPurchaseOrders", "278d8ecfecb22145")].
Proof. reflexivity. Qed.
Lemma stream_list_query_skeletons_as_reviewed :
  GeneratedKeys.stream_list_query_skeletons =
  [("Streams", "83f6d4dd5d157a95"); ("AllStreamsForSender", "6c41cb68584971c3"); ("AllStreamsForReceiver", "0712da4977f8b8f6")].
Proof. reflexivity. Qed.
