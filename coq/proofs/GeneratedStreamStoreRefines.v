(* REFINEMENT: the store accessors of x/stream as generated on every run (GeneratedStreamStore.v: go_st_* over the ordered
   byte-keyed store of model/KVStore.v) IMPLEMENT the hand-written primitives of model/StreamKeeperPrims.v (str_GetStream,
   str_IsStream, str_SetStream, str_DeleteStream, str_GetParams, str_SetParams, str_AllStreams over the abstract state
   [str_state]: a validator fee and an insertion-ordered association list (receiver, sender) -> stream), which the
   keeper-level translation (GeneratedStreamKeeper.v) and every higher theorem are written against.

   The abstract addresses of the model are integers; the store is keyed by address BYTES.  The development is
   parametrised by
       dom : Z -> Prop          the abstract addresses in use,
       emb : Z -> list N        their bytes,
   with   emb_len : on dom, 1 <= length (emb a) <= 255     (an sdk address; LengthPrefix panics above 255, and the empty
                                                            address has no length byte: ([], [7]) and ([7], []) share a key)
          emb_inj : on dom, emb is injective               (two abstract addresses with the same bytes are one account).
   [dom := fun _ => True] gives the global reading; a finite range lets a fixed-width encoding qualify.

   Rstr s st  - the byte store [s] represents the abstract state [st]:
       s is sorted (the store invariant);
       the Params cell holds Params{ValidatorFee = s_valfee st}, or is absent and s_valfee st = 0 (GetParams answers the
       zero Params from an empty store);
       on dom the entry under the key of (emb r, emb sn) is the protobuf image of the stream the map holds at (r, sn),
       absent iff absent;
       every entry under StreamKeyPrefix is the key of such a pair of dom addresses;
       the association list has no key twice (lib/AMap.v's adel removes ONE binding: without this the abstract
       DeleteStream is not a map delete) and all its keys are in dom.

   Proved, for every world w with Rstr s (kw_str w):
     readers     go_st_GetStream / go_st_IsStream / go_st_GetParams answer Ok of what the primitives answer;
     writers     go_st_SetStream / go_st_DeleteStream / go_st_SetParams end Ok / Err e / Panic c exactly when the primitive
                 does, with the same code, and the resulting states are related again;
     listing     go_st_IterateAllStreams hands the callback the entries of str_AllStreams with their addresses embedded:
                 as a Permutation (the abstract map is in insertion order, the store in key order - they DIFFER, see
                 [ex_listing_order_differs]), and exactly equal once the abstract listing is sorted by store key;
     init        the empty store represents (fee 0, no streams); SetParams on it gives (fee, no streams);
     histories   any sequence of reads and writes, run on both sides from related states, gives the same trace of
                 results (values read, Err / Panic codes) and related final states. *)
From MC Require Import lib.Prelude lib.AMap lib.GoSdk model.Keys model.KeyPrims model.KVStore model.StoreCodecPrims
  model.Bank model.Stream model.StreamKeeperPrims
  GeneratedKeys GeneratedStreamTypes GeneratedStreamKeeper GeneratedStreamStore
  proofs.KeysProofs proofs.GeneratedKeysEq proofs.KVStoreFacts proofs.KVStoreFacts2Stream
  proofs.GeneratedStreamParamsEq proofs.GeneratedStreamStoreEq.
From Coq Require Import NArith ZArith List Bool Lia Permutation.
Import ListNotations.
Local Open Scope Z_scope.

(* ================================================================== *)
(* generic helpers                                                      *)
(* ================================================================== *)

(* the protobuf struct and the model's record are two spellings of the same data *)
Lemma to_of_go_stream g : to_go_stream (of_go_stream g) = g.
Proof. destruct g as [[d a] f l z c]. reflexivity. Qed.
Lemma of_to_go_stream x : of_go_stream (to_go_stream x) = x.
Proof. destruct x. reflexivity. Qed.
Lemma to_go_stream_inj x y : to_go_stream x = to_go_stream y -> x = y.
Proof. intros E. rewrite <- (of_to_go_stream x), <- (of_to_go_stream y), E. reflexivity. Qed.

Lemma go_Params_eta p : mk_go_Params (Params_ValidatorFee p) = p.
Proof. destruct p. reflexivity. Qed.

Section AMapMore.
  Context {K V : Type} `{EqKey K}.

  Lemma In_akeys_aset (k : K) (v : V) m x : In x (akeys (aset k v m)) -> x = k \/ In x (akeys m).
  Proof.
    induction m as [|[k' v'] r IH]; cbn.
    - intros [E|[]]; left; symmetry; exact E.
    - destruct (keqb k k') eqn:E; cbn.
      + intros [X|X]; [left; symmetry; exact X | right; right; exact X].
      + intros [X|X]; [right; left; exact X|]. destruct (IH X) as [Y|Y]; [left; exact Y | right; right; exact Y].
  Qed.

  Lemma In_aget_nodup (k : K) (v : V) m : NoDup (akeys m) -> In (k, v) m -> aget k m = Some v.
  Proof.
    induction m as [|[k' v'] r IH]; cbn; [intros _ []|].
    intros ND; inversion ND as [|? ? NI ND']; subst. intros [E|I].
    - inversion E; subst. rewrite keqb_refl. reflexivity.
    - destruct (keqb k k') eqn:E.
      + apply keqb_spec in E; subst k'. exfalso; apply NI. change k with (fst (k, v)). apply in_map; exact I.
      + apply IH; assumption.
  Qed.
End AMapMore.

Lemma NoDup_map_inj_in {A B} (f : A -> B) (l : list A) :
  (forall x y, In x l -> In y l -> f x = f y -> x = y) -> NoDup l -> NoDup (map f l).
Proof.
  induction l as [|a l IH]; intros Hf ND; cbn; [constructor|].
  inversion ND as [|? ? NI ND']; subst. constructor.
  - intros Hin. apply in_map_iff in Hin as (b & E & Hb). apply NI.
    rewrite (Hf a b); [exact Hb | left; reflexivity | right; exact Hb | symmetry; exact E].
  - apply IH; [|exact ND']. intros x y Hx Hy. apply Hf; right; assumption.
Qed.

(* ---- sorting a listing by store key: insertion sort in bytes.Compare order of the stream key ---- *)
Definition triple := (list N * list N * go_Stream)%type.
Definition tkey (a : triple) : list N := skey (fst (fst a)) (snd (fst a)).
Definition tlt (a b : triple) : Prop := lex_lt (tkey a) (tkey b) = true.

Fixpoint kinsert (a : triple) (l : list triple) : list triple :=
  match l with
  | [] => [a]
  | b :: r => if lex_lt (tkey a) (tkey b) then a :: b :: r else b :: kinsert a r
  end.
Definition ksort (l : list triple) : list triple := fold_right kinsert [] l.

Lemma kinsert_perm a l : Permutation (kinsert a l) (a :: l).
Proof.
  induction l as [|b r IH]; cbn [kinsert]; [apply Permutation_refl|].
  destruct (lex_lt (tkey a) (tkey b)); [apply Permutation_refl|].
  eapply Permutation_trans; [apply perm_skip; exact IH | apply perm_swap].
Qed.

Lemma ksort_perm l : Permutation (ksort l) l.
Proof.
  induction l as [|a l IH]; [constructor|]. change (ksort (a :: l)) with (kinsert a (ksort l)).
  eapply Permutation_trans; [apply kinsert_perm | apply perm_skip; exact IH].
Qed.

Lemma kinsert_sorted a l : ForallOrdPairs tlt l -> (forall b, In b l -> tkey b <> tkey a) ->
  ForallOrdPairs tlt (kinsert a l).
Proof.
  induction l as [|b r IH]; intros Hs Hne; cbn [kinsert].
  - constructor; [constructor | constructor].
  - inversion Hs as [|? ? Hb Hr]; subst. destruct (lex_lt (tkey a) (tkey b)) eqn:E.
    + constructor; [|exact Hs]. constructor; [exact E|].
      rewrite Forall_forall in *. intros x Hx. unfold tlt. eapply lex_lt_trans; [exact E | apply Hb; exact Hx].
    + constructor.
      * rewrite Forall_forall in *. intros x Hx.
        apply (Permutation_in _ (kinsert_perm a r)) in Hx. destruct Hx as [<-|Hx]; [|apply Hb; exact Hx].
        unfold tlt. destruct (lex_lt_total (tkey b) (tkey a)) as [T|[T|T]]; [exact T | | congruence].
        exfalso. apply (Hne b); [left; reflexivity | exact T].
      * apply IH; [exact Hr|]. intros x Hx. apply Hne. right; exact Hx.
Qed.

Lemma ksort_sorted l : NoDup (map tkey l) -> ForallOrdPairs tlt (ksort l).
Proof.
  induction l as [|a l IH]; intros ND; [constructor|]. change (ksort (a :: l)) with (kinsert a (ksort l)).
  cbn [map] in ND. inversion ND as [|? ? NI ND']; subst. apply kinsert_sorted; [apply IH; exact ND'|].
  intros b Hb E. apply NI. rewrite <- E. apply in_map. apply (Permutation_in _ (ksort_perm l)). exact Hb.
Qed.

(* an ascending listing is determined by its content *)
Lemma sorted_perm_unique (l1 l2 : list triple) :
  ForallOrdPairs tlt l1 -> ForallOrdPairs tlt l2 -> Permutation l1 l2 -> l1 = l2.
Proof.
  revert l2. induction l1 as [|a l1 IH]; intros l2 H1 H2 P.
  - apply Permutation_nil in P. symmetry; exact P.
  - destruct l2 as [|b l2]; [apply Permutation_sym, Permutation_nil in P; discriminate P|].
    inversion H1 as [|? ? Ha H1']; subst. inversion H2 as [|? ? Hb H2']; subst.
    assert (E : a = b).
    { assert (Ia : In a (b :: l2)) by (apply (Permutation_in _ P); left; reflexivity).
      assert (Ib : In b (a :: l1)) by (apply (Permutation_in _ (Permutation_sym P)); left; reflexivity).
      destruct Ia as [Ia|Ia]; [symmetry; exact Ia|]. destruct Ib as [Ib|Ib]; [exact Ib|].
      rewrite Forall_forall in Ha, Hb. pose proof (Ha _ Ib) as T1. pose proof (Hb _ Ia) as T2.
      unfold tlt in T1, T2. rewrite (lex_lt_asym _ _ T1) in T2. discriminate T2. }
    subst b. f_equal. apply IH; [exact H1' | exact H2' | eapply Permutation_cons_inv; exact P].
Qed.

Lemma ksort_unique L T : NoDup (map tkey T) -> ForallOrdPairs tlt L -> Permutation L T -> L = ksort T.
Proof.
  intros ND HL P. apply sorted_perm_unique; [exact HL | apply ksort_sorted; exact ND|].
  eapply Permutation_trans; [exact P | apply Permutation_sym, ksort_perm].
Qed.

(* ---- the outcomes of the two sides of a simulation step ---- *)
Definition out_sim {A B} (R : A -> B -> Prop) (a : outcome A) (c : outcome B) : Prop :=
  match a, c with
  | Ok x, Ok y => R x y
  | Err e, Err e' => e = e'
  | Panic p, Panic p' => p = p'
  | _, _ => False
  end.

(* what a history observes *)
Inductive sobs :=
| ObUnit
| ObStream (x : go_Stream) (found : bool)
| ObBool (b : bool)
| ObParams (p : go_Params)
| ObList (l : list triple).

(* one call of a store accessor of x/stream, on abstract addresses *)
Inductive sop :=
| OpSetStream (r sn : addr) (g : go_Stream)
| OpDeleteStream (r sn : addr)
| OpSetParams (p : go_Params)
| OpGetStream (r sn : addr)
| OpIsStream (r sn : addr)
| OpGetParams
| OpAllStreams.

(* a run: the state is threaded through the calls; a call that returns an error leaves the state alone (the
   accessors validate before they write) and the run goes on; a panic ends it.  The trace keeps every result. *)
Section Run.
  Context {S : Type}.
  Variable step : S -> sop -> outcome (S * sobs).
  Fixpoint run (s : S) (ops : list sop) : list (outcome sobs) * S :=
    match ops with
    | [] => ([], s)
    | o :: r =>
        match step s o with
        | Ok (s', ob) => let tr := run s' r in (Ok ob :: fst tr, snd tr)
        | Err e => let tr := run s r in (Err e :: fst tr, snd tr)
        | Panic c => ([Panic c], s)
        end
    end.
End Run.

(* ================================================================== *)
Section Refinement.
(* ================================================================== *)

Variable dom : addr -> Prop.
Variable emb : addr -> list N.
Hypothesis emb_len : forall a, dom a -> (1 <= length (emb a) <= 255)%nat.
Hypothesis emb_inj : forall a b, dom a -> dom b -> emb a = emb b -> a = b.

(* the store key of the abstract pair, the stored image of a stream, the listed image of a map entry *)
Definition ekey (r sn : addr) : list N := skey (emb r) (emb sn).
Definition sval (x : stream) : stream_val := SV_Stream (to_go_stream x).
Definition etriple (kv : (addr * addr) * stream) : triple := (emb (fst (fst kv)), emb (snd (fst kv)), to_go_stream (snd kv)).
Definition eexport (e : go_StreamExport) : triple :=
  (emb (StreamExport_Receiver e), emb (StreamExport_Sender e), StreamExport_Stream e).

Definition params_cell (s : sstore) (vf : Z) : Prop :=
  okv_get s stream_ParamsKey = Some (SV_Params (mk_go_Params vf)) \/
  (okv_get s stream_ParamsKey = None /\ vf = 0).

Definition Rstr (s : sstore) (st : str_state) : Prop :=
  okv_sorted s = true /\
  params_cell s (s_valfee st) /\
  (forall r sn : addr, dom r -> dom sn -> okv_get s (ekey r sn) = option_map sval (aget (r, sn) (s_streams st))) /\
  (forall k v, In (k, v) s -> is_prefix stream_StreamKeyPrefix k = true -> exists r sn, dom r /\ dom sn /\ k = ekey r sn) /\
  NoDup (akeys (s_streams st)) /\
  (forall r sn : addr, In (r, sn) (akeys (s_streams st)) -> dom r /\ dom sn).

(* ---- keys of embedded pairs ---- *)
Lemma emb_ok a : dom a -> addr_ok (emb a).
Proof. exact (emb_len a). Qed.

Lemma emb_nonempty a : dom a -> emb a <> [].
Proof. intros D. apply addr_ok_nonempty, emb_ok, D. Qed.

Lemma ekey_ok r sn : dom r -> dom sn -> go_stream_GetStreamKey (emb r) (emb sn) = Ok (ekey r sn).
Proof. intros Dr Ds. apply stream_key_ok; [apply (emb_len r Dr) | apply (emb_len sn Ds)]. Qed.

Lemma ekey_inj r sn r' sn' : dom r -> dom sn -> dom r' -> dom sn' -> ekey r sn = ekey r' sn' -> r = r' /\ sn = sn'.
Proof.
  intros Dr Ds Dr' Ds' E. apply skey_inj in E as [E1 E2]; try (apply emb_nonempty; assumption).
  split; apply emb_inj; assumption.
Qed.

Lemma ekey_neq r sn r' sn' : dom r -> dom sn -> dom r' -> dom sn' -> (r', sn') <> (r, sn) -> ekey r' sn' <> ekey r sn.
Proof. intros Dr Ds Dr' Ds' Hne E. apply Hne. apply ekey_inj in E as [-> ->]; auto. Qed.

Lemma ekey_prefix r sn : is_prefix stream_StreamKeyPrefix (ekey r sn) = true.
Proof. apply skey_prefix. Qed.

Lemma pair_dec (a b : addr * addr) : {a = b} + {a <> b}.
Proof. decide equality; apply Z.eq_dec. Qed.

(* ---- a related store is well-formed in the sense of proofs/GeneratedStreamStoreEq.v ---- *)
Lemma Rstr_sorted s st : Rstr s st -> okv_sorted s = true.
Proof. intros H; apply H. Qed.

Lemma Rstr_wf s st : Rstr s st -> stream_store_wf s.
Proof.
  intros (Hsd & Hp & Hg & Hk & _ & _). split.
  - intros v Hin. apply in_get in Hin; [|exact Hsd].
    destruct Hp as [Hp|[Hp _]]; rewrite Hp in Hin; [injection Hin as <-; eexists; reflexivity | discriminate Hin].
  - intros k v Hin Hpre. destruct (Hk k v Hin Hpre) as (r & sn & Dr & Ds & ->).
    apply in_get in Hin; [|exact Hsd]. rewrite (Hg r sn Dr Ds) in Hin.
    destruct (aget (r, sn) (s_streams st)) as [x|]; cbn [option_map] in Hin; [|discriminate Hin].
    injection Hin as <-. exists (emb r), (emb sn), (to_go_stream x).
    split; [apply emb_ok; exact Dr|]. split; [apply emb_ok; exact Ds|]. split; reflexivity.
Qed.

(* ================================================================== *)
(* READERS                                                              *)
(* ================================================================== *)

Theorem GetStream_refines s w r sn : Rstr s (kw_str w) -> dom r -> dom sn ->
  go_st_GetStream s (emb r) (emb sn) = Ok (str_GetStream w r sn).
Proof.
  intros (_ & _ & Hg & _) Dr Ds. rewrite GetStream_spec, (ekey_ok r sn Dr Ds). cbn [obind].
  rewrite (Hg r sn Dr Ds). unfold str_GetStream.
  destruct (aget (r, sn) (s_streams (kw_str w))); reflexivity.
Qed.

Theorem IsStream_refines s w r sn : Rstr s (kw_str w) -> dom r -> dom sn ->
  go_st_IsStream s (emb r) (emb sn) = Ok (str_IsStream w r sn).
Proof.
  intros (_ & _ & Hg & _) Dr Ds. rewrite IsStream_spec, (ekey_ok r sn Dr Ds). cbn [obind].
  rewrite (Hg r sn Dr Ds). unfold str_IsStream, ahas.
  destruct (aget (r, sn) (s_streams (kw_str w))); reflexivity.
Qed.

Theorem GetParams_refines s w : Rstr s (kw_str w) -> go_st_GetParams s = Ok (str_GetParams w).
Proof.
  intros (_ & Hp & _). rewrite GetParams_spec. unfold str_GetParams.
  destruct Hp as [Hp|[Hp E]]; rewrite Hp; [reflexivity | rewrite E; reflexivity].
Qed.

(* ================================================================== *)
(* WRITERS: the relation is preserved                                   *)
(* ================================================================== *)

Lemma params_cell_set_other s vf k v : k <> stream_ParamsKey -> params_cell s vf -> params_cell (okv_set s k v) vf.
Proof.
  intros Hne Hp. unfold params_cell. rewrite get_set_other by (intros E; apply Hne; symmetry; exact E). exact Hp.
Qed.

Lemma params_cell_del_other s vf k : k <> stream_ParamsKey -> params_cell s vf -> params_cell (okv_del s k) vf.
Proof.
  intros Hne Hp. unfold params_cell. rewrite get_del_other by (intros E; apply Hne; symmetry; exact E). exact Hp.
Qed.

Lemma Rstr_set s st r sn x : Rstr s st -> dom r -> dom sn ->
  Rstr (okv_set s (ekey r sn) (sval x)) (with_streams st (aset (r, sn) x (s_streams st))).
Proof.
  intros (Hsd & Hp & Hg & Hk & Hnd & Hd) Dr Ds. unfold Rstr. cbn [with_streams s_valfee s_streams].
  split; [apply set_sorted; exact Hsd|].
  split; [apply params_cell_set_other; [apply skey_not_params | exact Hp]|].
  split; [|split; [|split]].
  - intros r' sn' Dr' Ds'. destruct (pair_dec (r', sn') (r, sn)) as [E|E].
    + injection E as -> ->. rewrite get_set_same, aget_aset_eq. reflexivity.
    + rewrite get_set_other by (apply ekey_neq; assumption).
      rewrite aget_aset_neq by (intros X; apply E; symmetry; exact X). apply Hg; assumption.
  - intros k v Hin Hpre. apply set_in in Hin as [[-> _]|Hin]; [exists r, sn; auto | apply (Hk k v); assumption].
  - apply NoDup_akeys_aset; exact Hnd.
  - intros r' sn' Hin. apply In_akeys_aset in Hin as [E|Hin]; [injection E as -> ->; auto | apply Hd; exact Hin].
Qed.

Lemma Rstr_del s st r sn : Rstr s st -> dom r -> dom sn ->
  Rstr (okv_del s (ekey r sn)) (with_streams st (adel (r, sn) (s_streams st))).
Proof.
  intros (Hsd & Hp & Hg & Hk & Hnd & Hd) Dr Ds. unfold Rstr. cbn [with_streams s_valfee s_streams].
  split; [apply del_sorted; exact Hsd|].
  split; [apply params_cell_del_other; [apply skey_not_params | exact Hp]|].
  split; [|split; [|split]].
  - intros r' sn' Dr' Ds'. destruct (pair_dec (r', sn') (r, sn)) as [E|E].
    + injection E as -> ->. rewrite get_del_same by exact Hsd. rewrite aget_adel_eq by exact Hnd. reflexivity.
    + rewrite get_del_other by (apply ekey_neq; assumption).
      rewrite aget_adel_neq by (intros X; apply E; symmetry; exact X). apply Hg; assumption.
  - intros k v Hin Hpre. apply del_in in Hin. apply (Hk k v); assumption.
  - apply NoDup_akeys_adel; exact Hnd.
  - intros r' sn' Hin. apply akeys_adel_incl in Hin. apply Hd; exact Hin.
Qed.

Lemma Rstr_set_params s st p :
  Rstr s st -> Rstr (okv_set s stream_ParamsKey (SV_Params p)) {| s_valfee := Params_ValidatorFee p; s_streams := s_streams st |}.
Proof.
  intros (Hsd & Hp & Hg & Hk & Hnd & Hd). unfold Rstr. cbn [s_valfee s_streams].
  split; [apply set_sorted; exact Hsd|].
  split; [left; rewrite get_set_same, go_Params_eta; reflexivity|].
  split; [|split; [|split]].
  - intros r sn Dr Ds. rewrite get_set_other by apply skey_not_params. apply Hg; assumption.
  - intros k v Hin Hpre. apply set_in in Hin as [[-> _]|Hin]; [|apply (Hk k v); assumption].
    rewrite params_not_prefix in Hpre. discriminate Hpre.
  - exact Hnd.
  - exact Hd.
Qed.

(* the relation between the results of a writer: related states (both return the unit) *)
Definition Rres (a : kworld * unit) (c : sstore * unit) : Prop := Rstr (fst c) (kw_str (fst a)).

Theorem SetStream_refines s w r sn g : Rstr s (kw_str w) -> dom r -> dom sn ->
  out_sim Rres (str_SetStream w r sn g) (go_st_SetStream s (emb r) (emb sn) g).
Proof.
  intros HR Dr Ds. unfold str_SetStream, set_stream. rewrite SetStream_spec, (ekey_ok r sn Dr Ds). cbn [obind].
  unfold marshal_check_Stream. cbn [of_go_stream st_lot st_dzt].
  destruct (time_storable (Stream_LastOutflowTime g) && time_storable (Stream_DepositZeroTime g)); cbn [obind out_sim].
  - unfold Rres. cbn [fst kw_str with_str].
    pose proof (Rstr_set s (kw_str w) r sn (of_go_stream g) HR Dr Ds) as H.
    unfold sval in H. rewrite to_of_go_stream in H. exact H.
  - reflexivity.
Qed.

Theorem DeleteStream_refines s w r sn : Rstr s (kw_str w) -> dom r -> dom sn ->
  out_sim Rres (str_DeleteStream w r sn) (go_st_DeleteStream s (emb r) (emb sn)).
Proof.
  intros HR Dr Ds. unfold str_DeleteStream. rewrite DeleteStream_spec, (ekey_ok r sn Dr Ds). cbn [obind out_sim].
  unfold Rres. cbn [fst kw_str with_str]. apply Rstr_del; assumption.
Qed.

Theorem SetParams_refines s w p : Rstr s (kw_str w) ->
  out_sim Rres (str_SetParams w p) (go_st_SetParams s p).
Proof.
  intros HR. unfold str_SetParams. rewrite SetParams_spec, gen_str_Params_Validate_eq.
  destruct (str_params_valid (Params_ValidatorFee p)); cbn [obind out_sim].
  - unfold Rres. cbn [fst kw_str with_str]. apply Rstr_set_params; exact HR.
  - reflexivity.
Qed.

(* ================================================================== *)
(* LISTING                                                              *)
(* ================================================================== *)

(* str_AllStreams with the addresses embedded is the image of the association list *)
Lemma eexport_AllStreams w : map eexport (str_AllStreams w) = map etriple (s_streams (kw_str w)).
Proof. unfold str_AllStreams. rewrite map_map. reflexivity. Qed.

Lemma tkey_etriple_map (m : amap (addr * addr) stream) :
  map tkey (map etriple m) = map (fun k => ekey (fst k) (snd k)) (akeys m).
Proof. unfold akeys. rewrite !map_map. reflexivity. Qed.

Lemma etriple_keys_nodup s st : Rstr s st -> NoDup (map tkey (map etriple (s_streams st))).
Proof.
  intros (_ & _ & _ & _ & Hnd & Hd). rewrite tkey_etriple_map. apply NoDup_map_inj_in; [|exact Hnd].
  intros [r1 s1] [r2 s2] H1 H2 E. cbn [fst snd] in E.
  destruct (Hd _ _ H1) as [D1 D1']. destruct (Hd _ _ H2) as [D2 D2'].
  apply ekey_inj in E as [-> ->]; auto.
Qed.

(* membership: what the store loop hands the callback is exactly the embedded association list *)
Lemma listing_members s st L : Rstr s st -> go_st_IterateAllStreams s collect [] = Ok L ->
  forall a, In a L <-> In a (map etriple (s_streams st)).
Proof.
  intros HR HL. pose proof (Rstr_wf _ _ HR) as W. pose proof (Rstr_sorted _ _ HR) as Hsd.
  destruct (list_entries s L W HL) as [M F]. pose proof (list_point s L W Hsd HL) as P.
  destruct HR as (_ & _ & Hg & Hk & Hnd & Hd).
  intros [[r' s'] x]. split.
  - intros Hin. rewrite Forall_forall in F. destruct (F _ Hin) as [Ar As]. cbn [fst snd] in Ar, As.
    assert (Hin' : In (entry_of (r', s', x)) (okv_prefix s stream_StreamKeyPrefix))
      by (rewrite <- M; apply in_map; exact Hin).
    unfold entry_of in Hin'. cbn [fst snd] in Hin'. apply prefix_in in Hin' as [Hin' Hpre].
    destruct (Hk _ _ Hin' Hpre) as (r & sn & Dr & Ds & E).
    apply skey_inj in E as [-> ->];
      [| apply addr_ok_nonempty; exact Ar | apply addr_ok_nonempty; exact As | apply emb_nonempty; exact Dr | apply emb_nonempty; exact Ds].
    apply in_get in Hin'; [|exact Hsd]. fold (ekey r sn) in Hin'. rewrite (Hg r sn Dr Ds) in Hin'.
    destruct (aget (r, sn) (s_streams st)) as [y|] eqn:G; cbn [option_map] in Hin'; [|discriminate Hin'].
    injection Hin' as <-. apply aget_In in G.
    apply in_map_iff. exists ((r, sn), y). split; [reflexivity | exact G].
  - intros Hin. apply in_map_iff in Hin as ([[r sn] y] & E & Hin). unfold etriple in E. cbn [fst snd] in E.
    injection E as <- <- <-.
    assert (Hk' : In (r, sn) (akeys (s_streams st))) by (change (r, sn) with (fst ((r, sn), y)); apply in_map; exact Hin).
    destruct (Hd _ _ Hk') as [Dr Ds].
    apply P. split; [apply emb_ok; exact Dr|]. split; [apply emb_ok; exact Ds|].
    rewrite GetStream_spec, (ekey_ok r sn Dr Ds). cbn [obind]. rewrite (Hg r sn Dr Ds).
    rewrite (In_aget_nodup _ _ _ Hnd Hin). reflexivity.
Qed.

Lemma listing_total s st : Rstr s st -> exists L, go_st_IterateAllStreams s collect [] = Ok L.
Proof. intros HR. apply list_total. eapply Rstr_wf; exact HR. Qed.

(* up to the order: the store lists in key order, the abstract map in insertion order *)
Theorem AllStreams_refines_perm s w : Rstr s (kw_str w) ->
  exists L, go_st_IterateAllStreams s collect [] = Ok L /\ Permutation L (map eexport (str_AllStreams w)).
Proof.
  intros HR. destruct (listing_total _ _ HR) as [L HL]. exists L. split; [exact HL|].
  rewrite eexport_AllStreams. apply NoDup_Permutation.
  - pose proof (list_nodup s L (Rstr_wf _ _ HR) (Rstr_sorted _ _ HR) HL) as ND. eapply NoDup_map_inv; exact ND.
  - pose proof (etriple_keys_nodup _ _ HR) as ND. eapply NoDup_map_inv; exact ND.
  - apply (listing_members s (kw_str w) L HR HL).
Qed.

(* exactly: the abstract listing, embedded and sorted by store key *)
Theorem AllStreams_refines_sorted s w : Rstr s (kw_str w) ->
  go_st_IterateAllStreams s collect [] = Ok (ksort (map eexport (str_AllStreams w))).
Proof.
  intros HR. destruct (AllStreams_refines_perm s w HR) as (L & HL & P). rewrite HL. f_equal.
  apply ksort_unique; [rewrite eexport_AllStreams; eapply etriple_keys_nodup; exact HR | | exact P].
  exact (list_order s L (Rstr_wf _ _ HR) (Rstr_sorted _ _ HR) HL).
Qed.

(* and any callback (one that stops early too) runs over that list *)
Theorem AllStreams_refines_callback s w : Rstr s (kw_str w) ->
  forall St (cb : St -> triple -> outcome (St * bool)) st0,
    go_st_IterateAllStreams s cb st0 = list_iterate cb (ksort (map eexport (str_AllStreams w))) st0.
Proof.
  intros HR St cb st0. apply list_callback; [eapply Rstr_wf; exact HR | apply AllStreams_refines_sorted; exact HR].
Qed.

(* ================================================================== *)
(* INITIAL STATES                                                       *)
(* ================================================================== *)

Theorem Rstr_empty : Rstr [] {| s_valfee := 0; s_streams := [] |}.
Proof.
  unfold Rstr. cbn [s_valfee s_streams]. split; [reflexivity|].
  split; [right; split; reflexivity|]. split; [intros; reflexivity|]. split; [intros k v []|].
  split; [constructor | intros r sn []].
Qed.

Theorem Rstr_init p s u : go_st_SetParams [] p = Ok (s, u) ->
  Rstr s {| s_valfee := Params_ValidatorFee p; s_streams := [] |} /\ str_params_valid (Params_ValidatorFee p) = true.
Proof.
  intros H. apply SetParams_inv in H as [Hv ->]. split.
  - exact (Rstr_set_params [] _ p Rstr_empty).
  - apply gen_str_Params_Validate_ok_iff; exact Hv.
Qed.

(* ================================================================== *)
(* HISTORIES                                                            *)
(* ================================================================== *)

Definition op_dom (o : sop) : Prop :=
  match o with
  | OpSetStream r sn _ | OpDeleteStream r sn | OpGetStream r sn | OpIsStream r sn => dom r /\ dom sn
  | OpSetParams _ | OpGetParams | OpAllStreams => True
  end.

(* the abstract step: the primitives of model/StreamKeeperPrims.v *)
Definition astep (w : kworld) (o : sop) : outcome (kworld * sobs) :=
  match o with
  | OpSetStream r sn g => do res <- str_SetStream w r sn g; Ok (fst res, ObUnit)
  | OpDeleteStream r sn => do res <- str_DeleteStream w r sn; Ok (fst res, ObUnit)
  | OpSetParams p => do res <- str_SetParams w p; Ok (fst res, ObUnit)
  | OpGetStream r sn => Ok (w, ObStream (fst (str_GetStream w r sn)) (snd (str_GetStream w r sn)))
  | OpIsStream r sn => Ok (w, ObBool (str_IsStream w r sn))
  | OpGetParams => Ok (w, ObParams (str_GetParams w))
  | OpAllStreams => Ok (w, ObList (ksort (map eexport (str_AllStreams w))))
  end.

(* the concrete step: the generated accessors on the embedded addresses *)
Definition cstep (s : sstore) (o : sop) : outcome (sstore * sobs) :=
  match o with
  | OpSetStream r sn g => do res <- go_st_SetStream s (emb r) (emb sn) g; Ok (fst res, ObUnit)
  | OpDeleteStream r sn => do res <- go_st_DeleteStream s (emb r) (emb sn); Ok (fst res, ObUnit)
  | OpSetParams p => do res <- go_st_SetParams s p; Ok (fst res, ObUnit)
  | OpGetStream r sn => do res <- go_st_GetStream s (emb r) (emb sn); Ok (s, ObStream (fst res) (snd res))
  | OpIsStream r sn => do b <- go_st_IsStream s (emb r) (emb sn); Ok (s, ObBool b)
  | OpGetParams => do p <- go_st_GetParams s; Ok (s, ObParams p)
  | OpAllStreams => do l <- go_st_IterateAllStreams s collect []; Ok (s, ObList l)
  end.

(* one step: same result, related states *)
Definition Rstep (a : kworld * sobs) (c : sstore * sobs) : Prop := snd a = snd c /\ Rstr (fst c) (kw_str (fst a)).

Lemma out_sim_writer (a : outcome (kworld * unit)) (c : outcome (sstore * unit)) :
  out_sim Rres a c ->
  out_sim Rstep (do res <- a; Ok (fst res, ObUnit)) (do res <- c; Ok (fst res, ObUnit)).
Proof.
  destruct a as [[w' u]| |], c as [[s' u']| |]; cbn [out_sim obind]; try tauto.
  unfold Rres, Rstep. cbn [fst snd]. intros H. split; [reflexivity | exact H].
Qed.

Theorem step_refines s w o : Rstr s (kw_str w) -> op_dom o -> out_sim Rstep (astep w o) (cstep s o).
Proof.
  intros HR Hd. destruct o as [r sn g|r sn|p|r sn|r sn| |]; cbn [astep cstep op_dom] in *.
  - destruct Hd as [Dr Ds]. apply out_sim_writer, SetStream_refines; assumption.
  - destruct Hd as [Dr Ds]. apply out_sim_writer, DeleteStream_refines; assumption.
  - apply out_sim_writer, SetParams_refines; assumption.
  - destruct Hd as [Dr Ds]. rewrite (GetStream_refines s w r sn HR Dr Ds). cbn [obind out_sim].
    split; [reflexivity | exact HR].
  - destruct Hd as [Dr Ds]. rewrite (IsStream_refines s w r sn HR Dr Ds). cbn [obind out_sim].
    split; [reflexivity | exact HR].
  - rewrite (GetParams_refines s w HR). cbn [obind out_sim]. split; [reflexivity | exact HR].
  - rewrite (AllStreams_refines_sorted s w HR). cbn [obind out_sim]. split; [reflexivity | exact HR].
Qed.

(* any history: the same trace of results, related final states *)
Theorem history_refines ops : forall s w, Rstr s (kw_str w) -> Forall op_dom ops ->
  fst (run astep w ops) = fst (run cstep s ops) /\
  Rstr (snd (run cstep s ops)) (kw_str (snd (run astep w ops))).
Proof.
  induction ops as [|o ops IH]; intros s w HR Hd; cbn [run].
  - split; [reflexivity | exact HR].
  - inversion Hd as [|? ? Ho Hops]; subst. pose proof (step_refines s w o HR Ho) as H.
    destruct (astep w o) as [[w' oa]| |], (cstep s o) as [[s' oc]| |]; cbn [out_sim] in H; try contradiction.
    + destruct H as [E HR']. cbn [fst snd] in E, HR'. subst oc.
      destruct (IH s' w' HR' Hops) as [Et HRf]. cbn [fst snd]. split; [rewrite Et; reflexivity | exact HRf].
    + subst. destruct (IH s w HR Hops) as [Et HRf]. cbn [fst snd]. split; [rewrite Et; reflexivity | exact HRf].
    + subst. cbn [fst snd]. split; [reflexivity | exact HR].
Qed.

(* the writers preserve what the relation asks of the abstract side alone: no reachable abstract state has a key twice *)
Corollary history_nodup ops s w : Rstr s (kw_str w) -> Forall op_dom ops ->
  NoDup (akeys (s_streams (kw_str (snd (run astep w ops))))).
Proof. intros HR Hd. destruct (history_refines ops s w HR Hd) as [_ H]. apply H. Qed.

End Refinement.

(* ================================================================== *)
(* NON-VACUITY                                                          *)
(* ================================================================== *)

Local Open Scope Z_scope.

(* one-byte addresses 1..255 for the abstract addresses 0..254 *)
Definition ex_dom (a : Z) : Prop := 0 <= a < 255.
Definition ex_emb (a : Z) : list N := [(Z.to_N a + 1)%N].

Lemma ex_emb_len a : ex_dom a -> (1 <= length (ex_emb a) <= 255)%nat.
Proof. intros _. cbn. lia. Qed.

Lemma ex_emb_inj a b : ex_dom a -> ex_dom b -> ex_emb a = ex_emb b -> a = b.
Proof. unfold ex_dom, ex_emb. intros Ha Hb E. injection E as E. lia. Qed.

(* the hypotheses also have a global instance in this byte model (a byte is an N here): every integer its own byte *)
Definition ex_emb_all (a : Z) : list N := [if a <? 0 then (2 * Z.to_N (- a) + 1)%N else (2 * Z.to_N a)%N].

Lemma ex_emb_all_len a : (1 <= length (ex_emb_all a) <= 255)%nat.
Proof. cbn. lia. Qed.

Lemma ex_emb_all_inj a b : ex_emb_all a = ex_emb_all b -> a = b.
Proof.
  unfold ex_emb_all. intros E. apply cons_eq_inv in E as [E _].
  destruct (Z.ltb_spec a 0), (Z.ltb_spec b 0); lia.
Qed.

Definition ex_w0 : kworld := mk_kworld 0 {| bal := []; supply := [] |} {| s_valfee := 0; s_streams := [] |}.

(* params, two streams written against the key order, a rewrite of the first, reads, a refused write, a delete *)
Definition ex_ops : list sop :=
  [ OpGetParams;
    OpSetParams (mk_go_Params 5);
    OpSetStream 7 3 (ex_x 1);
    OpSetStream 2 9 (ex_x 2);
    OpAllStreams;
    OpSetStream 7 3 (ex_x 4);
    OpGetStream 7 3;
    OpIsStream 3 7;
    OpSetParams (mk_go_Params (-1));
    OpGetParams;
    OpSetStream 2 8 (ex_x 3);
    OpDeleteStream 2 9;
    OpAllStreams ].

Lemma ex_ops_dom : Forall (op_dom ex_dom) ex_ops.
Proof. unfold ex_ops, ex_dom. repeat constructor; cbn; lia. Qed.

Definition ex_final_store : sstore :=
  [ ([1]%N, SV_Params (mk_go_Params 5));
    ([17; 1; 3; 1; 9]%N, SV_Stream (ex_x 3));
    ([17; 1; 8; 1; 4]%N, SV_Stream (ex_x 4)) ].

Definition ex_final_state : str_state :=
  {| s_valfee := 5; s_streams := [ ((7, 3), of_go_stream (ex_x 4)); ((2, 8), of_go_stream (ex_x 3)) ] |}.

Example ex_runs :
  snd (run (cstep ex_emb) [] ex_ops) = ex_final_store /\
  kw_str (snd (run (astep ex_emb) ex_w0 ex_ops)) = ex_final_state /\
  fst (run (cstep ex_emb) [] ex_ops) =
    [ Ok (ObParams (mk_go_Params 0)); Ok ObUnit; Ok ObUnit; Ok ObUnit;
      Ok (ObList [ ([3]%N, [10]%N, ex_x 2); ([8]%N, [4]%N, ex_x 1) ]);
      Ok ObUnit; Ok (ObStream (ex_x 4) true); Ok (ObBool false); Err 40; Ok (ObParams (mk_go_Params 5));
      Ok ObUnit; Ok ObUnit;
      Ok (ObList [ ([3]%N, [9]%N, ex_x 3); ([8]%N, [4]%N, ex_x 4) ]) ].
Proof. vm_compute. repeat split. Qed.

(* a concrete related pair, obtained through the theorem *)
Example ex_related : Rstr ex_dom ex_emb ex_final_store ex_final_state.
Proof.
  pose proof (history_refines ex_dom ex_emb ex_emb_len ex_emb_inj ex_ops [] ex_w0 (Rstr_empty ex_dom ex_emb) ex_ops_dom) as [_ H].
  destruct ex_runs as (E1 & E2 & _). rewrite E1, E2 in H. exact H.
Qed.

Example ex_traces_agree : fst (run (astep ex_emb) ex_w0 ex_ops) = fst (run (cstep ex_emb) [] ex_ops).
Proof. vm_compute. reflexivity. Qed.

(* the two listings differ in ORDER: the model's map lists (7,3) first (inserted first), the store (2,8) (lower key) *)
Example ex_listing_order_differs :
  let w := mk_kworld 0 {| bal := []; supply := [] |} ex_final_state in
  map (eexport ex_emb) (str_AllStreams w) = [ ([8]%N, [4]%N, ex_x 4); ([3]%N, [9]%N, ex_x 3) ] /\
  go_st_IterateAllStreams ex_final_store collect [] = Ok [ ([3]%N, [9]%N, ex_x 3); ([8]%N, [4]%N, ex_x 4) ].
Proof. vm_compute. split; reflexivity. Qed.

(* a panic on both sides, same code: MustMarshal of a time that cannot be encoded *)
Example ex_panic_agrees :
  let g := mk_go_Stream (go_zero_denom, 1) 1 (300000000000 * NSEC) 0 true in
  fst (run (astep ex_emb) ex_w0 [OpSetStream 1 2 g; OpGetParams]) = [Panic PANIC_MARSHAL] /\
  fst (run (cstep ex_emb) [] [OpSetStream 1 2 g; OpGetParams]) = [Panic PANIC_MARSHAL].
Proof. vm_compute. split; reflexivity. Qed.

(* ---- the hypotheses are necessary ---- *)

(* emb_inj: with two abstract addresses on one byte string the store cannot tell them apart, the model can *)
Example emb_inj_refuted :
  let emb := fun _ : Z => [1%N] in
  fst (run (astep emb) ex_w0 [OpSetStream 1 2 (ex_x 1); OpIsStream 3 4]) = [Ok ObUnit; Ok (ObBool false)] /\
  fst (run (cstep emb) [] [OpSetStream 1 2 (ex_x 1); OpIsStream 3 4]) = [Ok ObUnit; Ok (ObBool true)].
Proof. vm_compute. split; reflexivity. Qed.

(* emb_len, upper bound: LengthPrefix panics on an address above 255 bytes, the primitive knows no such limit *)
Example emb_len_refuted :
  let emb := fun _ : Z => repeat 1%N 256 in
  fst (run (astep emb) ex_w0 [OpIsStream 1 2]) = [Ok (ObBool false)] /\
  fst (run (cstep emb) [] [OpIsStream 1 2]) = [Panic GO_PANIC_LENPREFIX].
Proof. vm_compute. split; reflexivity. Qed.

(* emb_len, lower bound: the empty address has no length byte: (0, 1) and (1, 0) share a key *)
Example emb_nonempty_refuted :
  let emb := fun a : Z => if a =? 0 then [] else [7%N] in
  (forall a b, 0 <= a <= 1 -> 0 <= b <= 1 -> emb a = emb b -> a = b) /\
  fst (run (astep emb) ex_w0 [OpSetStream 0 1 (ex_x 1); OpIsStream 1 0]) = [Ok ObUnit; Ok (ObBool false)] /\
  fst (run (cstep emb) [] [OpSetStream 0 1 (ex_x 1); OpIsStream 1 0]) = [Ok ObUnit; Ok (ObBool true)].
Proof.
  cbv zeta. split; [|vm_compute; split; reflexivity].
  intros a b Ha Hb. assert (a = 0 \/ a = 1) as [->| ->] by lia; assert (b = 0 \/ b = 1) as [->| ->] by lia;
    cbn; intros E; try reflexivity; discriminate E.
Qed.

(* distinct keys in the abstract map: lib/AMap.v's adel removes the first binding only, so on a list with a key twice
   the abstract DeleteStream is not a delete - such a state is related to no store *)
Example nodup_needed :
  let st := {| s_valfee := 0; s_streams := [ ((1, 2), of_go_stream (ex_x 1)); ((1, 2), of_go_stream (ex_x 2)) ] |} in
  let w := mk_kworld 0 {| bal := []; supply := [] |} st in
  fst (run (astep ex_emb) w [OpDeleteStream 1 2; OpIsStream 1 2]) = [Ok ObUnit; Ok (ObBool true)] /\
  (forall s, ~ Rstr ex_dom ex_emb s st).
Proof.
  cbv zeta. split; [vm_compute; reflexivity|].
  intros s (_ & _ & _ & _ & ND & _). cbn in ND. inversion ND as [|? ? NI _]; subst. apply NI. left; reflexivity.
Qed.
