(* What the two translated registry fee decorators (GeneratedWrkchainAnte.v, GeneratedBeaconAnte.v: the same Go text up to
   renaming) share, written once over the primitives of model/AnteWorld.v and lib/GoSdk.v - no generated name occurs here:

     part 1  sdk.Coins as the decorator uses them: the amount a coin list holds in a denomination ([amt]), what
             Coins.Add of one coin and Coins.SafeSub of one coin do to it, the bank's balance listing of an account;
     part 2  checkFeePayerHasFunds: [funds_go] (the function over the primitives, fee payer and fee given directly; each
             generated copy is convertible to it) = the model's [payer_has_funds];
     part 3  check*MaxSlots: the Go map (lib/GoSdk.v go_map_get / go_map_set over a list of (id, record)) against the
             model's [max_slots_table] ([aset] over (id, (max, want))), generic in the record type the translator
             declares locally in each generated file; the final loop;
     part 4  the panic codes of the whole decorator. *)
From Coq Require Import ZifyBool.
From MC Require Import lib.Prelude lib.AMap lib.GoSdk model.Bank model.Registry model.Enterprise model.App model.AppSpec
  model.AnteWorld.
From MC Require Import proofs.BankProofs proofs.EnterpriseProofs proofs.AppFeeProofs.
From MC Require proofs.GeneratedWrkchainAnteEq.
Local Open Scope Z_scope.

Module L := GeneratedWrkchainAnteEq.     (* the loop lemmas (go_range_cons, go_range_map, go_range_ext, ...) *)

#[local] Arguments go_range : simpl never.

(* [lia] does not look through the type abbreviations of lib/GoSdk.v and model/Bank.v *)
Ltac ua := unfold go_coin, go_denom, go_int, go_addr, coin, denom, addr in *.
Ltac zl := ua; lia.

(* ================================================================= *)
(* 1. coin lists                                                      *)
(* ================================================================= *)

(* the amount held in denomination d: the first entry of that denomination *)
Definition amt (cs : list go_coin) (d : go_denom) : Z :=
  match find (fun c => fst c =? d) cs with Some c => snd c | None => 0 end.

Definition denoms (cs : list go_coin) : list go_denom := map fst cs.
Definition all_nonneg (cs : list go_coin) : Prop := forall c, In c cs -> 0 <= snd c.

Lemma existsb_denom_In cs d : existsb (fun x => fst x =? d) cs = true <-> In d (denoms cs).
Proof.
  unfold denoms. rewrite existsb_exists, in_map_iff. split.
  - intros (x & I & E). exists x. split; [zl|exact I].
  - intros (x & E & I). exists x. split; [exact I|zl].
Qed.

Lemma amt_notin cs d : ~ In d (denoms cs) -> amt cs d = 0.
Proof.
  intros N. unfold amt. destruct (find (fun c => fst c =? d) cs) as [c|] eqn:F; [|reflexivity].
  apply find_some in F as [I E]. exfalso. apply N. unfold denoms. apply in_map_iff. exists c. split; [zl|exact I].
Qed.

(* ---- Coins.Add of one coin ---- *)
Lemma find_app_ {A} (f : A -> bool) l1 l2 :
  find f (l1 ++ l2) = match find f l1 with Some x => Some x | None => find f l2 end.
Proof. induction l1 as [|x r IH]; cbn [List.app find]; [reflexivity|]. destruct (f x); [reflexivity|exact IH]. Qed.

Lemma add1_map_amt cs (c : go_coin) d :
  amt (map (fun x => if fst x =? fst c then (fst x, snd x + snd c) else x) cs) d =
  amt cs d + (if (fst c =? d) && existsb (fun x => fst x =? fst c) cs then snd c else 0).
Proof.
  unfold amt, go_coin, go_denom in *. induction cs as [|x r IH]; cbn [map find existsb].
  - rewrite andb_false_r. reflexivity.
  - destruct (fst x =? fst c) eqn:E1; cbn [fst snd orb].
    + rewrite andb_true_r. destruct (fst x =? d) eqn:E2.
      * cbn [snd]. replace (fst c =? d) with true by zl. reflexivity.
      * replace (fst c =? d) with false in * by zl. rewrite IH. reflexivity.
    + destruct (fst x =? d) eqn:E2; [|exact IH]. replace (fst c =? d) with false by zl. cbn [andb]. zl.
Qed.

Lemma add1_amt cs c d : amt (Coins_add1 cs c) d = amt cs d + (if fst c =? d then snd c else 0).
Proof.
  unfold Coins_add1. destruct (existsb (fun x => fst x =? fst c) cs) eqn:X.
  - rewrite add1_map_amt, X, andb_true_r. reflexivity.
  - assert (N : ~ In (fst c) (denoms cs)) by (rewrite <- existsb_denom_In, X; discriminate).
    unfold amt. rewrite find_app_. destruct (find (fun c0 => fst c0 =? d) cs) as [y|] eqn:F.
    + apply find_some in F as [I E]. replace (fst c =? d) with false; [zl|].
      symmetry. apply Z.eqb_neq. intros Hc. apply N. unfold denoms. apply in_map_iff. exists y. split; [zl|exact I].
    + cbn [find]. unfold go_coin, go_denom in *. destruct (fst c =? d); lia.
Qed.

Lemma add1_nonneg cs c : all_nonneg cs -> 0 <= snd c -> all_nonneg (Coins_add1 cs c).
Proof.
  intros A C x. unfold Coins_add1. destruct (existsb (fun x0 => fst x0 =? fst c) cs).
  - rewrite in_map_iff. intros (y & <- & I). specialize (A y I). destruct (fst y =? fst c); cbn [snd]; zl.
  - rewrite in_app_iff. intros [I|[<-|[]]]; [exact (A x I)|exact C].
Qed.

Lemma add1_denoms_in cs c : In (fst c) (denoms cs) -> denoms (Coins_add1 cs c) = denoms cs.
Proof.
  intros I. unfold Coins_add1. apply existsb_denom_In in I. rewrite I. unfold denoms. rewrite map_map.
  apply map_ext. intros x. unfold go_coin, go_denom in *. destruct (fst x =? fst c); reflexivity.
Qed.

Lemma nodup_snoc {A} (l : list A) x : NoDup l -> ~ In x l -> NoDup (l ++ [x]).
Proof.
  induction l as [|y l IH]; intros N NI; cbn [List.app].
  - constructor; [intros []|constructor].
  - inversion N as [|? ? Ny Nl]; subst. constructor.
    + rewrite in_app_iff. intros [H|[H|[]]]; [exact (Ny H)|]. apply NI. left. symmetry. exact H.
    + apply IH; [exact Nl|]. intros H. apply NI. right. exact H.
Qed.

Lemma add1_nodup cs c : NoDup (denoms cs) -> NoDup (denoms (Coins_add1 cs c)).
Proof.
  intros N. destruct (existsb (fun x => fst x =? fst c) cs) eqn:X.
  - rewrite add1_denoms_in by (apply existsb_denom_In; exact X). exact N.
  - unfold Coins_add1. rewrite X. unfold denoms. rewrite map_app. cbn [map].
    apply nodup_snoc; [exact N|]. fold (denoms cs). rewrite <- existsb_denom_In, X. discriminate.
Qed.

(* ---- Coins.SafeSub of one positive coin: "has negative" says the list holds less than the coin ---- *)
Lemma sub1_neg_map cs d v : NoDup (denoms cs) -> all_nonneg cs -> In d (denoms cs) ->
  existsb (fun x => snd x <? 0) (map (fun x => if fst x =? d then (fst x, snd x - v) else x) cs) = (amt cs d <? v).
Proof.
  unfold amt, go_coin, go_denom in *. induction cs as [|x r IH]; intros N A I; [destruct I|].
  cbn [map existsb find]. cbn [denoms map] in N, I. inversion N as [|? ? Nx Nr]; subst.
  assert (Ar : all_nonneg r) by (intros y Hy; apply A; right; exact Hy).
  pose proof (A x (or_introl eq_refl)) as Ax.
  destruct (fst x =? d) eqn:E.
  - cbn [snd]. assert (D : fst x = d) by zl. subst d.
    assert (Z0 : existsb (fun y => snd y <? 0) (map (fun y => if fst y =? fst x then (fst y, snd y - v) else y) r) = false).
    { apply not_true_is_false. rewrite existsb_exists. intros (y & Hy & Hn). apply in_map_iff in Hy as (z & <- & Hz).
      destruct (fst z =? fst x) eqn:E2.
      - apply Nx. apply in_map_iff. exists z. split; [zl|exact Hz].
      - specialize (Ar z Hz). zl. }
    rewrite Z0, orb_false_r. zl.
  - destruct I as [I|I]; [zl|]. rewrite (IH Nr Ar I). replace (snd x <? 0) with false by zl. reflexivity.
Qed.

Lemma sub1_hasneg cs c : NoDup (denoms cs) -> all_nonneg cs -> 0 < snd c ->
  existsb (fun x => snd x <? 0) (Coins_sub1 cs c) = (amt cs (fst c) <? snd c).
Proof.
  intros N A P. unfold Coins_sub1. destruct (existsb (fun x => fst x =? fst c) cs) eqn:X.
  - apply sub1_neg_map; [exact N|exact A|]. apply existsb_denom_In. exact X.
  - rewrite existsb_app. cbn [existsb snd]. rewrite amt_notin by (rewrite <- existsb_denom_In, X; discriminate).
    replace (- snd c <? 0) with true by zl. cbn [orb]. rewrite orb_true_r. zl.
Qed.

Lemma SafeSub1_hasneg cs c : NoDup (denoms cs) -> all_nonneg cs -> 0 < snd c -> 0 <= fst c ->
  exists r, Coins_SafeSub1 cs c = Ok (r, amt cs (fst c) <? snd c).
Proof.
  intros N A P D. pose proof (sub1_hasneg cs c N A P) as H. unfold Coins_SafeSub1, go_zero_denom, go_coin, go_denom in *.
  destruct (fst c =? -1) eqn:E1; [lia|]. destruct (snd c <? 0) eqn:E2; [lia|]. destruct (snd c =? 0) eqn:E3; [lia|].
  eexists. rewrite H. reflexivity.
Qed.

(* ---- the bank's listing of an account's balances ---- *)
Definition listing (m : amap (addr * denom) Z) (a : addr) : list go_coin :=
  map (fun kv => (snd (fst kv), snd kv)) (filter (fun kv => (fst (fst kv) =? a) && (0 <? snd kv)) m).

Lemma listing_In m a c : In c (listing m a) <-> In ((a, fst c), snd c) m /\ 0 < snd c.
Proof.
  unfold listing. rewrite in_map_iff. split.
  - intros ([[a' d] v] & <- & I). apply filter_In in I as [I C]. cbn [fst snd] in *.
    assert (a' = a) by zl. subst a'. split; [exact I|zl].
  - intros [I P]. exists ((a, fst c), snd c). cbn [fst snd]. split; [destruct c; reflexivity|].
    apply filter_In. split; [exact I|]. cbn [fst snd]. rewrite Z.eqb_refl. cbn. zl.
Qed.

Lemma listing_nonneg m a : all_nonneg (listing m a).
Proof. intros c I. apply listing_In in I. zl. Qed.

Lemma listing_nodup m a : NoDup (akeys m) -> NoDup (denoms (listing m a)).
Proof.
  unfold akeys. induction m as [|[[a' d] v] r IH]; intros N; [constructor|].
  cbn [map] in N. inversion N as [|? ? Nx Nr]; subst. cbn [fst] in Nx.
  unfold listing. cbn [filter fst snd]. destruct ((a' =? a) && (0 <? v)) eqn:C; [|exact (IH Nr)].
  cbn [map denoms fst snd]. constructor; [|exact (IH Nr)].
  intros H. apply in_map_iff in H as (c & E & I). apply listing_In in I as [I _]. apply Nx.
  apply in_map_iff. exists ((a, fst c), snd c). cbn [fst]. split; [|exact I]. f_equal; zl.
Qed.

Lemma listing_amt m a d : NoDup (akeys m) -> (forall k v, In (k, v) m -> 0 <= v) ->
  amt (listing m a) d = match aget (a, d) m with Some v => v | None => 0 end.
Proof.
  unfold akeys. induction m as [|[[a' d'] v] r IH]; intros N P; [reflexivity|].
  cbn [map] in N. inversion N as [|? ? Nx Nr]; subst. cbn [fst] in Nx.
  assert (Pr : forall k v0, In (k, v0) r -> 0 <= v0) by (intros k v0 I; apply (P k); right; exact I).
  pose proof (P _ _ (or_introl eq_refl)) as Pv. specialize (IH Nr Pr).
  cbn [aget keqb EqKey_pair EqKey_Z fst snd]. unfold listing in *. cbn [filter fst snd].
  destruct (a =? a') eqn:Ea; cbn [andb].
  - assert (a' = a) by zl. subst a'. rewrite Z.eqb_refl. cbn [andb].
    destruct (d =? d') eqn:Ed.
    + assert (d' = d) by zl. subst d'. destruct (0 <? v) eqn:Pos.
      * cbn [map]. unfold amt. cbn [find fst snd]. rewrite Z.eqb_refl. reflexivity.
      * rewrite IH. destruct (aget (a, d) r) as [v'|] eqn:G; [|zl].
        exfalso. apply Nx. apply aget_In in G. apply in_map_iff. exists ((a, d), v'). split; [reflexivity|exact G].
    + destruct (0 <? v); [|exact IH]. cbn [map]. unfold amt in *. cbn [find fst snd].
      replace (d' =? d) with false by zl. exact IH.
  - replace (a' =? a) with false by zl. cbn [andb]. exact IH.
Qed.

Lemma bank_entries_nonneg b : bank_wf b -> bank_nonneg b -> forall k v, In (k, v) (bal b) -> 0 <= v.
Proof.
  intros W N [a d] v I. specialize (N a d). unfold balance in N.
  destruct (aget (a, d) (bal b)) as [v'|] eqn:G.
  - apply aget_In in G. assert (v' = v); [|zl].
    unfold bank_wf, akeys in W. clear -W G I. induction (bal b) as [|[k x] r IH]; [destruct I|].
    cbn [map] in W. inversion W as [|? ? Nx Nr]; subst. cbn [fst] in Nx.
    destruct G as [G|G], I as [I|I].
    + congruence.
    + injection G as -> ->. exfalso. apply Nx. apply in_map_iff. exists ((a, d), v). split; [reflexivity|exact I].
    + injection I as -> ->. exfalso. apply Nx. apply in_map_iff. exists ((a, d), v'). split; [reflexivity|exact G].
    + exact (IH Nr G I).
  - exfalso. apply aget_None_notin in G. apply G. unfold akeys. apply in_map_iff. exists ((a, d), v). split; [reflexivity|exact I].
Qed.

Lemma GetAllBalances_amt w a d : bank_wf (aw_bank w) -> bank_nonneg (aw_bank w) ->
  amt (bank_GetAllBalances w a) d = balance (aw_bank w) a d.
Proof.
  intros W N. change (bank_GetAllBalances w a) with (listing (bal (aw_bank w)) a).
  rewrite listing_amt; [reflexivity|exact W|apply bank_entries_nonneg; assumption].
Qed.

(* ---- a fee ---- *)
Lemma nodup_denoms_distinct (cs : list go_coin) : NoDup (map fst cs) -> denoms_distinct cs = true.
Proof.
  induction cs as [|c r IH]; intros N; [reflexivity|]. cbn [map] in N. inversion N as [|? ? Nx Nr]; subst.
  cbn [denoms_distinct]. rewrite (IH Nr), andb_true_r. apply negb_true_iff, not_true_is_false. intros H.
  apply existsb_denom_In in H. exact (Nx H).
Qed.

Lemma denoms_distinct_nodup (cs : list go_coin) : denoms_distinct cs = true -> NoDup (map fst cs).
Proof.
  induction cs as [|c r IH]; intros H; [constructor|]. cbn [denoms_distinct] in H. apply andb_true_iff in H as [H1 H2].
  cbn [map]. constructor; [|exact (IH H2)]. intros I. apply existsb_denom_In in I. rewrite I in H1. discriminate.
Qed.

Lemma Coins_IsValid_coins_valid (cs : list coin) : NoDup (map fst cs) -> Coins_IsValid cs = coins_valid cs.
Proof. intros N. unfold Coins_IsValid, coins_valid. rewrite nodup_denoms_distinct by exact N. apply andb_true_r. Qed.

(* without the hypothesis: the generated validity is the model's and "each denomination once" *)
Lemma Coins_IsValid_spec (cs : list coin) : Coins_IsValid cs = coins_valid cs && denoms_distinct cs.
Proof. reflexivity. Qed.

(* ================================================================= *)
(* 2. checkFeePayerHasFunds                                           *)
(* ================================================================= *)

(* the function of both generated files, the fee payer and the fee given directly *)
Definition funds_go (w : aworld) (feePayer : go_addr) (fees : list go_coin) : outcome unit :=
  let feePayerAcc := acc_GetAccount w feePayer in
  let expectedFeeDenom := reg_GetParamDenom w in
  if modacc_is_nil feePayerAcc then Err sdkerrors_ErrUnknownAddress else
  if negb (Coins_IsValid fees) then Err sdkerrors_ErrInvalidCoins else
  let coins := bank_GetAllBalances w (modacc_addr feePayerAcc) in
  let lockedUnd := ent_GetLockedUndAmountForAccount w feePayer in
  do lockedUndCoins <- sdk_NewCoins1 lockedUnd;
  do potentialCoins <- Coins_AddAll coins lockedUndCoins;
  let '(_, fee) := Coins_Find fees expectedFeeDenom in
  do (_, hasNeg) <- Coins_SafeSub1 potentialCoins fee;
  if hasNeg then Err sdkerrors_ErrInsufficientFunds else
  let spendableCoins := bank_SpendableCoins w (modacc_addr feePayerAcc) in
  do potentialSpendableCoins <- Coins_AddAll spendableCoins lockedUndCoins;
  do (_, hasNeg) <- Coins_SafeSub1 potentialSpendableCoins fee;
  if hasNeg then Err sdkerrors_ErrInsufficientFunds else Ok tt.

(* liquid + locked of the payer, as a coin list *)
Lemma potential_coins w a : bank_wf (aw_bank w) -> bank_nonneg (aw_bank w) -> 0 <= snd (locked_coin (aw_ent w) a) ->
  exists lc pot,
    sdk_NewCoins1 (locked_coin (aw_ent w) a) = Ok lc /\ Coins_AddAll (bank_GetAllBalances w a) lc = Ok pot /\
    NoDup (denoms pot) /\ all_nonneg pot /\
    forall d, amt pot d = balance (aw_bank w) a d +
                          (if fst (locked_coin (aw_ent w) a) =? d then snd (locked_coin (aw_ent w) a) else 0).
Proof.
  intros W N Lk.
  assert (N0 : NoDup (denoms (bank_GetAllBalances w a))) by (apply listing_nodup; exact W).
  assert (A0 : all_nonneg (bank_GetAllBalances w a)) by apply listing_nonneg.
  pose proof (GetAllBalances_amt w a) as GA.
  pose proof (add1_amt (bank_GetAllBalances w a) (locked_coin (aw_ent w) a)) as AA.
  pose proof (add1_nodup (bank_GetAllBalances w a) (locked_coin (aw_ent w) a) N0) as AN.
  pose proof (add1_nonneg (bank_GetAllBalances w a) (locked_coin (aw_ent w) a) A0 Lk) as AP.
  unfold sdk_NewCoins1, Coins_AddAll. ua. generalize dependent (locked_coin (aw_ent w) a). intros lk Lk AA AN AP.
  ua. destruct (snd lk <? 0) eqn:Z1; [lia|]. destruct (snd lk =? 0) eqn:Z0.
  - exists [], (bank_GetAllBalances w a). cbn [fold_left]. repeat split; auto.
    intros d. rewrite GA by assumption. destruct (fst lk =? d); lia.
  - exists [lk], (Coins_add1 (bank_GetAllBalances w a) lk). cbn [fold_left]. repeat split; auto.
    intros d. rewrite AA, GA by assumption. reflexivity.
Qed.

Theorem funds_go_eq : forall now check b e rs t,
  bank_wf b -> bank_nonneg b -> 0 <= snd (locked_coin e (tx_payer t)) -> NoDup (map fst (tx_fee t)) ->
  funds_go (mk_aworld now check b e rs) (tx_payer t) (tx_fee t) = payer_has_funds rs b e t.
Proof.
  intros now check b e rs t W N Lk Nd. unfold funds_go, payer_has_funds. cbv zeta.
  set (w := mk_aworld now check b e rs).
  change (modacc_is_nil (acc_GetAccount w (tx_payer t))) with false. cbv iota.
  change (modacc_addr (acc_GetAccount w (tx_payer t))) with (tx_payer t).
  change (bank_SpendableCoins w (tx_payer t)) with (bank_GetAllBalances w (tx_payer t)).
  change (ent_GetLockedUndAmountForAccount w (tx_payer t)) with (locked_coin (aw_ent w) (tx_payer t)).
  change (reg_GetParamDenom w) with (rp_denom (r_params rs)).
  rewrite Coins_IsValid_coins_valid by exact Nd.
  change sdkerrors_ErrInvalidCoins with ERR_APP.
  destruct (coins_valid (tx_fee t)) eqn:Cv; cbn [negb]; [|reflexivity].
  destruct (potential_coins w (tx_payer t) W N Lk) as (lc & pot & E1 & E2 & Np & Ap & Am).
  rewrite E1. cbn [obind]. rewrite E2. cbn [obind].
  unfold Coins_Find, fee_find.
  destruct (find (fun c => fst c =? rp_denom (r_params rs)) (tx_fee t)) as [fee|] eqn:F.
  - apply find_some in F as [I _]. unfold coins_valid in Cv. rewrite forallb_forall in Cv. specialize (Cv fee I).
    destruct (SafeSub1_hasneg pot fee Np Ap ltac:(zl) ltac:(zl)) as (r & E3). rewrite E3. cbn [obind].
    rewrite Am. change (aw_bank w) with b. change (aw_ent w) with e.
    change sdkerrors_ErrInsufficientFunds with ERR_FEE_FUNDS.
    match goal with |- (if ?x then _ else (if ?y then _ else _)) = (if ?z then _ else _) => change y with x; change z with x; destruct x; reflexivity end.
  - reflexivity.
Qed.

(* ---- what happens without the hypotheses ---- *)

(* two coins of one denomination in the fee (not a valid sdk.Coins; the model's [coins_valid] does not look at it) *)
Definition fx_bank (v : Z) : bank := {| bal := [((1, NUND), v)]; supply := [(NUND, v)] |}.
Definition fx_ent (l : Z) : ent_state :=
  {| e_params := {| ep_denom := NUND; ep_min_accepts := 1; ep_time_limit := 100; ep_signers := [7] |};
     e_next := 1; e_pos := []; e_raisedq := []; e_acceptedq := []; e_wl := [];
     e_locked := [(1, (NUND, l))]; e_spent := []; e_totlocked := Some (NUND, l); e_totspent := None |}.
Definition fx_rs : reg_state :=
  {| r_params := {| rp_fee_register := 1000; rp_fee_record := 1; rp_fee_purchase := 5; rp_denom := NUND;
                    rp_default_limit := 100; rp_max_limit := 1000 |};
     r_next := 1; r_regs := []; r_limits := []; r_recs := [] |}.
Definition fx_tx (fee : list coin) : tx :=
  {| tx_msgs := [MSend 1 2 [(NUND, 1)]]; tx_fee := fee; tx_granter := None; tx_sig_ok := true |}.

(* (a) a fee with one denomination twice: Coins.IsValid refuses it, the model's [coins_valid] does not see it.  Not a
   transaction the chain can receive ([tx_wf]: sdk.Coins are sorted, one coin per denomination) *)
Example funds_go_dup_denom_refuted :
  let t := fx_tx [(NUND, 5); (NUND, 5)] in
  coins_valid (tx_fee t) = true /\ ~ NoDup (map fst (tx_fee t)) /\
  funds_go (mk_aworld 0 true (fx_bank 100) (fx_ent 0) fx_rs) (tx_payer t) (tx_fee t) = Err sdkerrors_ErrInvalidCoins /\
  payer_has_funds fx_rs (fx_bank 100) (fx_ent 0) t = Ok tt.
Proof.
  cbv zeta. split; [reflexivity|]. split; [|split; vm_compute; reflexivity].
  cbn. intros H. inversion H as [|? ? Nx _]. apply Nx. left. reflexivity.
Qed.

(* (b) a negative locked amount (excluded by the enterprise invariant): sdk.NewCoins panics *)
Example funds_go_negative_locked_refuted :
  let t := fx_tx [(NUND, 5)] in
  funds_go (mk_aworld 0 true (fx_bank 100) (fx_ent (-1)) fx_rs) (tx_payer t) (tx_fee t) = Panic GO_PANIC_COINS /\
  payer_has_funds fx_rs (fx_bank 100) (fx_ent (-1)) t = Ok tt.
Proof. vm_compute. split; reflexivity. Qed.

(* (c) a negative balance (excluded by the bank invariant): GetAllBalances does not list it, the model subtracts it *)
Example funds_go_negative_balance_refuted :
  let t := fx_tx [(NUND, 5)] in
  funds_go (mk_aworld 0 true (fx_bank (-3)) (fx_ent 6) fx_rs) (tx_payer t) (tx_fee t) = Ok tt /\
  payer_has_funds fx_rs (fx_bank (-3)) (fx_ent 6) t = Err ERR_FEE_FUNDS.
Proof. vm_compute. split; reflexivity. Qed.

(* (d) two table entries for one (account, denomination) (excluded by [bank_wf]): the listing has both *)
Example funds_go_dup_key_refuted :
  let b := {| bal := [((1, NUND), 3); ((1, NUND), 1)]; supply := [] |} in
  let t := fx_tx [(NUND, 2)] in
  funds_go (mk_aworld 0 true b (fx_ent 0) fx_rs) (tx_payer t) (tx_fee t) = Err sdkerrors_ErrInsufficientFunds /\
  payer_has_funds fx_rs b (fx_ent 0) t = Ok tt.
Proof. vm_compute. split; reflexivity. Qed.

(* the fee does not name the module's denomination (only reachable when the fee check did not run before: DeliverTx):
   both panic with the same code - SafeSub of the zero-value Coin that Find returns *)
Theorem funds_go_missing_denom : forall now check b e rs t,
  0 <= snd (locked_coin e (tx_payer t)) -> NoDup (map fst (tx_fee t)) -> coins_valid (tx_fee t) = true ->
  fee_find (tx_fee t) (rp_denom (r_params rs)) = None ->
  funds_go (mk_aworld now check b e rs) (tx_payer t) (tx_fee t) = Panic GO_PANIC_NILCOIN /\
  payer_has_funds rs b e t = Panic PANIC_NILCOIN /\ GO_PANIC_NILCOIN = PANIC_NILCOIN.
Proof.
  intros now check b e rs t Lk Nd Cv F. split; [|split; [|reflexivity]].
  - unfold funds_go. cbv zeta. set (w := mk_aworld now check b e rs).
    change (modacc_is_nil (acc_GetAccount w (tx_payer t))) with false. cbv iota.
    rewrite Coins_IsValid_coins_valid, Cv by exact Nd. cbn [negb].
    change (ent_GetLockedUndAmountForAccount w (tx_payer t)) with (locked_coin e (tx_payer t)).
    change (reg_GetParamDenom w) with (rp_denom (r_params rs)). unfold Coins_Find. unfold fee_find in F. rewrite F.
    unfold sdk_NewCoins1. ua.
    match goal with |- context [if ?c then Panic GO_PANIC_COINS else _] => destruct c eqn:Z1; [lia|] end.
    match goal with |- context [if ?c then Ok [] else _] => destruct c; reflexivity end.
  - unfold payer_has_funds. rewrite Cv, F. reflexivity.
Qed.

(* ================================================================= *)
(* 3. check*MaxSlots                                                  *)
(* ================================================================= *)

Section MaxSlots.
  (* the record the translator declares for the Go struct { max, want uint64 } *)
  Variable V : Type.
  Variable mk : Z -> Z -> V.
  Variable mx wt : V -> Z.
  Hypothesis mx_mk : forall a b, mx (mk a b) = a.
  Hypothesis wt_mk : forall a b, wt (mk a b) = b.

  Variable pick : msg -> option reg_msg.
  Variable rs : reg_state.

  (* the Go map as the model's table *)
  Definition tbl_of (pd : list (Z * V)) : amap Z (Z * Z) := map (fun kv => (fst kv, (mx (snd kv), wt (snd kv)))) pd.

  Lemma tbl_get pd id :
    aget id (tbl_of pd) = None /\ wt (go_map_get (mk 0 0) pd id) = 0 /\ mx (go_map_get (mk 0 0) pd id) = 0 \/
    aget id (tbl_of pd) = Some (mx (go_map_get (mk 0 0) pd id), wt (go_map_get (mk 0 0) pd id)).
  Proof.
    induction pd as [|[k v] r IH]; cbn [tbl_of map aget go_map_get fst snd keqb EqKey_Z].
    - left. rewrite mx_mk, wt_mk. auto.
    - rewrite (Z.eqb_sym k id). destruct (id =? k); [right; reflexivity|exact IH].
  Qed.

  Lemma tbl_set pd id v : tbl_of (go_map_set pd id v) = aset id (mx v, wt v) (tbl_of pd).
  Proof.
    induction pd as [|[k x] r IH]; cbn [tbl_of map aset go_map_set fst snd keqb EqKey_Z]; [reflexivity|].
    rewrite (Z.eqb_sym k id). destruct (id =? k); cbn [map fst snd]; [reflexivity|].
    f_equal. exact IH.
  Qed.

  (* one iteration of the first loop, for the module's own message [r] (if the sdk.Msg is one) *)
  Definition slots_step (w : aworld) (r : option reg_msg) (pd : list (Z * V)) : outcome (loop_res (list (Z * V)) unit) :=
    match r with
    | Some (RPurchase _ id n) =>
        if wt (go_map_get (mk 0 0) pd id) =? 0
        then Ok (LCont (go_map_set pd id (mk (reg_GetMaxPurchasableSlots w id) n)))
        else Ok (LCont (go_map_set pd id (mk (mx (go_map_get (mk 0 0) pd id)) (u64_add (wt (go_map_get (mk 0 0) pd id)) n))))
    | _ => Ok (LCont pd)
    end.

  (* the model's step (the function folded by [max_slots_table]) *)
  Definition table_step (tbl : amap Z (Z * Z)) (r : reg_msg) : amap Z (Z * Z) :=
    match r with
    | RPurchase _ id n =>
        match aget id tbl with
        | Some (m, want) => if want =? 0 then aset id (max_purchasable rs id, n) tbl else aset id (m, wrap64 (want + n)) tbl
        | None => aset id (max_purchasable rs id, n) tbl
        end
    | _ => tbl
    end.

  Lemma max_slots_table_fold t : max_slots_table pick rs t = fold_left table_step (own_msgs pick t) [].
  Proof. reflexivity. Qed.

  Lemma slots_step_table w r pd : aw_reg w = rs ->
    exists pd', slots_step w (Some r) pd = Ok (LCont pd') /\ tbl_of pd' = table_step (tbl_of pd) r.
  Proof.
    intros Er. destruct r as [| |o id n]; cbn [slots_step table_step]; try (eexists; split; reflexivity).
    unfold reg_GetMaxPurchasableSlots. rewrite Er.
    destruct (tbl_get pd id) as [(G & W0 & _)|G]; rewrite G.
    - rewrite W0. cbn [Z.eqb]. eexists. split; [reflexivity|]. rewrite tbl_set, mx_mk, wt_mk. reflexivity.
    - destruct (wt (go_map_get (mk 0 0) pd id) =? 0); eexists; (split; [reflexivity|]); rewrite tbl_set, mx_mk, wt_mk;
        reflexivity.
  Qed.

  Lemma slots_loop w ms : aw_reg w = rs -> forall pd,
    exists pd', go_range (fun m => slots_step w (pick m)) ms pd = Ok (LCont pd') /\
                tbl_of pd' = fold_left table_step (own_of pick ms) (tbl_of pd).
  Proof.
    intros Er. induction ms as [|m ms IH]; intros pd.
    - exists pd. split; reflexivity.
    - rewrite L.go_range_cons. cbn [own_of]. destruct (pick m) as [r|].
      + destruct (slots_step_table w r pd Er) as (pd1 & E1 & T1). rewrite E1. cbn [obind].
        destruct (IH pd1) as (pd' & E & T). exists pd'. split; [exact E|]. cbn [fold_left]. rewrite <- T1. exact T.
      + cbn [slots_step obind]. apply IH.
  Qed.

  (* the second loop: the first entry with max < want stops it with the error; the order of the entries does not matter *)
  Lemma slots_final (body : Z * V -> unit -> outcome (loop_res unit unit)) (E : Z) :
    (forall kv s, body kv s = if mx (snd kv) <? wt (snd kv) then Err E else Ok (LCont tt)) ->
    forall pd s, go_range body pd s =
      if existsb (fun kv => fst (snd kv) <? snd (snd kv)) (tbl_of pd) then Err E else Ok (LCont tt).
  Proof.
    intros Hb pd. induction pd as [|kv r IH]; intros []; [reflexivity|].
    rewrite L.go_range_cons, Hb. cbn [tbl_of map existsb fst snd].
    destruct (mx (snd kv) <? wt (snd kv)); cbn [obind orb]; [reflexivity|apply IH].
  Qed.

End MaxSlots.

(* ================================================================= *)
(* 4. panic codes of the decorator                                    *)
(* ================================================================= *)

(* sdk.NewCoin's "negative coin amount" (GO_PANIC_NEGCOIN = 4) is what model/App.v calls PANIC_NEGFEE = 55; every
   other code is the same on both sides (the funds check's nil-coin panic is 22 in lib/GoSdk.v and in the model) *)
Definition model_panic_code (c : Z) : Z := if c =? GO_PANIC_NEGCOIN then PANIC_NEGFEE else c.
Definition go_panic_code (c : Z) : Z := if c =? PANIC_NEGFEE then GO_PANIC_NEGCOIN else c.
Definition as_model_panic {A} (o : outcome A) : outcome A :=
  match o with Panic c => Panic (model_panic_code c) | _ => o end.
Definition as_go_panic {A} (o : outcome A) : outcome A :=
  match o with Panic c => Panic (go_panic_code c) | _ => o end.

Lemma check_fees_panic_code pick rs t c : check_fees pick rs t = Panic c -> c = PANIC_NEGFEE.
Proof.
  unfold check_fees. destruct (negb _); [discriminate|]. destruct (existsb _ (own_msgs pick t)); [intros [= <-]; reflexivity|].
  cbv zeta. destruct (_ <? _); [discriminate|]. destruct (_ <? _); discriminate.
Qed.

Lemma payer_has_funds_panic_code rs b e t c : payer_has_funds rs b e t = Panic c -> c = PANIC_NILCOIN.
Proof.
  unfold payer_has_funds. destruct (negb _); [discriminate|]. destruct (fee_find _ _); [|intros [= <-]; reflexivity].
  destruct (_ <? _); discriminate.
Qed.

Lemma check_max_slots_no_panic pick rs t c : check_max_slots pick rs t <> Panic c.
Proof. unfold check_max_slots. destruct (existsb _ _); discriminate. Qed.

Lemma reg_ante_panic_code pick rs check b e t c :
  reg_ante pick rs check b e t = Panic c -> c = PANIC_NEGFEE \/ c = PANIC_NILCOIN.
Proof.
  unfold reg_ante. destruct (own_msgs pick t); [discriminate|].
  destruct check.
  - destruct (check_fees pick rs t) as [[]|?|c'] eqn:F; cbn [obind]; try discriminate.
    + destruct (payer_has_funds rs b e t) as [[]|?|c'] eqn:G; cbn [obind]; try discriminate.
      * intros H. exfalso. exact (check_max_slots_no_panic _ _ _ _ H).
      * intros [= <-]. right. eapply payer_has_funds_panic_code; eauto.
    + intros [= <-]. left. eapply check_fees_panic_code; eauto.
  - cbn [obind]. destruct (payer_has_funds rs b e t) as [[]|?|c'] eqn:G; cbn [obind]; try discriminate.
    + intros H. exfalso. exact (check_max_slots_no_panic _ _ _ _ H).
    + intros [= <-]. right. eapply payer_has_funds_panic_code; eauto.
Qed.

(* on the decorator's outcomes the two renamings are inverse to each other *)
Lemma as_model_go_panic pick rs check b e t :
  as_model_panic (as_go_panic (reg_ante pick rs check b e t)) = reg_ante pick rs check b e t.
Proof.
  destruct (reg_ante pick rs check b e t) as [[]|?|c] eqn:E; try reflexivity.
  destruct (reg_ante_panic_code _ _ _ _ _ _ _ E) as [->| ->]; reflexivity.
Qed.


(* ---- reading an accepted max-slots check ---- *)
Lemma check_max_slots_ok_inv pick rs t :
  check_max_slots pick rs t = Ok tt ->
  forall id m want, In (id, (m, want)) (max_slots_table pick rs t) -> want <= m.
Proof.
  unfold check_max_slots. destruct (existsb _ (max_slots_table pick rs t)) eqn:X; [discriminate|]. intros _ id m want I.
  destruct (Z_lt_ge_dec m want) as [L|G]; [|lia]. exfalso.
  assert (Y : existsb (fun kv : Z * (Z * Z) => fst (snd kv) <? snd (snd kv)) (max_slots_table pick rs t) = true).
  { apply existsb_exists. exists (id, (m, want)). split; [exact I|cbn; lia]. }
  congruence.
Qed.

(* one purchase: the slots asked for are at most those the registration can still buy *)
Lemma check_max_slots_single pick rs t o id n :
  own_msgs pick t = [RPurchase o id n] ->
  check_max_slots pick rs t = (if max_purchasable rs id <? n then Err ERR_FEE_MAX_STORAGE else Ok tt).
Proof.
  intros O. unfold check_max_slots, max_slots_table. rewrite O. cbn [fold_left aget aset existsb fst snd].
  rewrite orb_false_r. reflexivity.
Qed.

(* reading an accepted funds check *)
Lemma payer_has_funds_iff rs b e t fee :
  coins_valid (tx_fee t) = true -> fee_find (tx_fee t) (rp_denom (r_params rs)) = Some fee ->
  (payer_has_funds rs b e t = Ok tt <->
   snd fee <= balance b (tx_payer t) (fst fee) +
              (if fst (locked_coin e (tx_payer t)) =? fst fee then snd (locked_coin e (tx_payer t)) else 0)).
Proof.
  intros Cv F. unfold payer_has_funds. rewrite Cv, F. cbn [negb]. cbv zeta.
  match goal with |- context [if ?c then _ else _] => destruct c eqn:C end; split; intros H; try discriminate; try reflexivity; lia.
Qed.

Print Assumptions funds_go_eq.
Print Assumptions funds_go_missing_denom.
Print Assumptions slots_loop.
Print Assumptions slots_final.
Print Assumptions check_max_slots_ok_inv.
Print Assumptions check_max_slots_single.
Print Assumptions payer_has_funds_iff.
