(* Vocabulary for the theorems that tie the GENERATED x/enterprise genesis code (go_InitGenesis, go_ExportGenesis in
   GeneratedEnterpriseKeeper.v) to the model of genesis export / import (model/Genesis.v: export_ent, import_ent).
   Definitions only. *)
From MC Require Import lib.Prelude lib.AMap lib.GoSdk GeneratedEnterpriseTypes model.Bank model.Enterprise model.Genesis
  model.EnterpriseKeeperPrims GeneratedEnterpriseKeeper.

(* the generated genesis document read as the model's *)
Definition gen_ent_of_go (g : go_GenesisState) : gen_ent :=
  {| ge_params := params_of_go (GenesisState_Params g); ge_start := GenesisState_StartingPurchaseOrderId g;
     ge_pos := map of_go_po (GenesisState_PurchaseOrders g);
     ge_locked := map (fun l => (LockedUnd_Owner l, LockedUnd_Amount l)) (GenesisState_LockedUnd g);
     ge_totlocked := GenesisState_TotalLocked g; ge_wl := GenesisState_Whitelist g;
     ge_totspent := GenesisState_TotalSpent g;
     ge_spent := map (fun l => (SpentEFUND_Owner l, SpentEFUND_Amount l)) (GenesisState_SpentEfund g) |}.

(* a fresh store (with whatever parameters the module starts with): what InitGenesis starts from; the bank state [b]
   is what the bank module imported before *)
Definition fresh_eworld (now : Z) (b : bank) (p0 : ent_params) : eworld :=
  mk_eworld now b {| e_params := p0; e_next := 0; e_pos := []; e_raisedq := []; e_acceptedq := []; e_wl := [];
                     e_locked := []; e_spent := []; e_totlocked := None; e_totspent := None |}.
