(* The primitives of the translated x/enterprise/ante CheckLockedUndDecorator.AnteHandle (GeneratedEnterpriseAnte.v)
   that are not already those of the enterprise keeper (model/EnterpriseKeeperPrims.v; UnlockCoinsForFees is the
   translated keeper function itself).  Trusted:
     - as seen from this module a WRKChain / BEACON message is a foreign sdk.Msg: [AM_Other tag] with the tag of its
       type (the message-type classes of model/App.v: 4..6 WRKChain register / record / purchase, 7..9 BEACON);
       wrkchain.CheckIsWrkChainTx / beacon.CheckIsBeaconTx (translated in their own modules, proved equal to "some
       top-level message of the module") are described here by those tags;
     - IsLocked: the locked amount of the account is positive. *)
From MC Require Import lib.Prelude lib.AMap lib.GoSdk GeneratedEnterpriseTypes model.Bank model.Enterprise
  model.EnterpriseKeeperPrims.

Definition is_wrk_tag (t : Z) : bool := (4 <=? t) && (t <=? 6).
Definition is_bcn_tag (t : Z) : bool := (7 <=? t) && (t <=? 9).
Definition wrkchain_CheckIsWrkChainTx (tx : go_tx) : bool :=
  existsb (fun m => match m with AM_Other t => is_wrk_tag t | _ => false end) (Tx_Msgs tx).
Definition beacon_CheckIsBeaconTx (tx : go_tx) : bool :=
  existsb (fun m => match m with AM_Other t => is_bcn_tag t | _ => false end) (Tx_Msgs tx).
Definition ent_IsLocked (w : eworld) (a : addr) : bool := 0 <? snd (locked_coin (ew_ent w) a).
Definition sdkerrors_ErrTxDecode : Z := 40.
