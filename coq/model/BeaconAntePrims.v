(* the primitives of the translated BEACON fee decorator: model/AnteWorld.v with [aw_reg] = the BEACON state *)
From MC Require Export model.AnteWorld.
