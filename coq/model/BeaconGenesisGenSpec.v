(* Vocabulary for the theorems that tie the GENERATED x/beacon genesis code (go_InitGenesis, go_ExportGenesis in
   GeneratedBeaconKeeper.v) to the model of genesis export / import (model/Genesis.v: export_reg, import_reg).
   Definitions only. *)
From MC Require Import lib.Prelude lib.AMap lib.GoSdk GeneratedBeaconTypes model.Bank model.Registry model.Genesis
  model.BeaconKeeperPrims GeneratedBeaconKeeper.

Definition rec_of_go (b : go_BeaconTimestampGenesisExport) : Z * record :=
  (BeaconTimestampGenesisExport_Id b,
   {| rc_key := BeaconTimestampGenesisExport_Id b; rc_hashes := [BeaconTimestampGenesisExport_H b];
      rc_time := BeaconTimestampGenesisExport_T b |}).
Definition entry_of_go (e : go_BeaconExport) : gen_reg_entry :=
  {| gre_reg := of_go_entity (BeaconExport_Beacon e); gre_limit := BeaconExport_InStateLimit e;
     gre_recs := map rec_of_go (BeaconExport_Timestamps e) |}.
Definition gen_of_go (g : go_GenesisState) : gen_reg :=
  {| gr_params := params_of_go (GenesisState_Params g); gr_start := GenesisState_StartingBeaconId g;
     gr_regs := map entry_of_go (GenesisState_RegisteredBeacons g) |}.

Definition fresh_world (now wall : Z) (p : reg_params) : rworld :=
  mk_rworld now wall {| r_params := p; r_next := 0; r_regs := []; r_limits := []; r_recs := [] |}.
