(* The ordered byte-keyed store the TRANSLATED store accessors (Generated*Store.v, from x/*/keeper) run against.
   Hand-written, trusted description of what cosmos-sdk v0.47.13 gives a module through ctx.KVStore(storeKey)
   (store/types.KVStore over gaskv / cachekv / iavl, read from the vendored source):
     - a finite map from non-empty byte strings to values: Get / Has / Set / Delete; every one of them panics
       on an empty or nil key (types.AssertValidKey);
     - iteration in ascending bytes.Compare order of the keys (lex_lt of model/Keys.v);
       sdk.KVStorePrefixIterator(store, p) = Iterator(p, PrefixEndBytes(p)) visits exactly the keys k with
       bytes.HasPrefix(k, p), ascending; KVStoreReversePrefixIterator the same keys descending;
       KVStorePrefixIteratorPaginated(store, p, page, limit) skips (page-1)*limit entries of the ascending
       listing and is valid for at most [limit] further ones (types/store.go: PaginatedIterator).
   The store is represented by its ascending listing (a list sorted by key, no two entries under one key):
   [okv_set] inserts in place, so the representation invariant [okv_sorted] is preserved (proofs/KVStoreFacts.v)
   and two stores with the same content are EQUAL as Coq values.
   Values are typed: a module's store holds a sum type with one constructor per protobuf message / raw byte
   value it marshals (Generated*Store.v declares it); k.cdc.MustMarshal(&x) is the constructor application,
   MustUnmarshal(bz, &x) the match on it (a value of another type is outside the description and panics).
   Trusted here: protobuf Marshal / Unmarshal round-trip for every stored message, and a stored value reads back
   non-nil (the code's `bz == nil` tests mean "no entry"). *)
From Coq Require Import NArith.
From MC Require Import lib.Prelude model.Keys.

Definition OKV_PANIC_KEY : Z := 13.        (* types.AssertValidKey: "key is nil or empty" *)
Definition OKV_PANIC_UNMARSHAL : Z := 14.  (* Unmarshal of a value that is not of the expected type *)
Definition OKV_PANIC_PAGE : Z := 99.       (* page 0 of a paginated iterator: (0-1)*limit wraps in Go; outside the description *)

Section OKV.
Context {V : Type}.

Definition okv := list (list N * V).

Fixpoint okv_get (s : okv) (k : list N) : option V :=
  match s with
  | [] => None
  | (k', v) :: r => if key_eqb k k' then Some v else okv_get r k
  end.

Fixpoint okv_set (s : okv) (k : list N) (v : V) : okv :=
  match s with
  | [] => [(k, v)]
  | (k', v') :: r =>
      if key_eqb k k' then (k, v) :: r
      else if lex_lt k k' then (k, v) :: (k', v') :: r
      else (k', v') :: okv_set r k v
  end.

Fixpoint okv_del (s : okv) (k : list N) : okv :=
  match s with
  | [] => []
  | (k', v') :: r => if key_eqb k k' then r else (k', v') :: okv_del r k
  end.

(* the listing a prefix iterator walks, ascending *)
Definition okv_prefix (s : okv) (p : list N) : okv := filter (fun kv => is_prefix p (fst kv)) s.

(* ---- the four point operations with the SDK's key assertion ---- *)
Definition okv_Get (s : okv) (k : list N) : outcome (option V) :=
  match k with [] => Panic OKV_PANIC_KEY | _ => Ok (okv_get s k) end.
Definition okv_Has (s : okv) (k : list N) : outcome bool :=
  match k with [] => Panic OKV_PANIC_KEY | _ => Ok (match okv_get s k with Some _ => true | None => false end) end.
Definition okv_Set (s : okv) (k : list N) (v : V) : outcome okv :=
  match k with [] => Panic OKV_PANIC_KEY | _ => Ok (okv_set s k v) end.
Definition okv_Delete (s : okv) (k : list N) : outcome okv :=
  match k with [] => Panic OKV_PANIC_KEY | _ => Ok (okv_del s k) end.

(* ---- iterators: the entries they will visit, in order ---- *)
Definition okv_iter_prefix (s : okv) (p : list N) : outcome okv := Ok (okv_prefix s p).
Definition okv_iter_prefix_rev (s : okv) (p : list N) : outcome okv := Ok (rev (okv_prefix s p)).
Definition okv_iter_prefix_paginated (s : okv) (p : list N) (page limit : N) : outcome okv :=
  if (page =? 0)%N then Panic OKV_PANIC_PAGE
  else Ok (firstn (N.to_nat limit) (skipn (N.to_nat ((page - 1) * limit)) (okv_prefix s p))).

(* `for ; it.Valid(); it.Next() { a := decode(it.Key(), it.Value()); if cb(a) { break } }`:
   decode and callback run entry by entry (an entry behind the break is never decoded); the callback's
   captured variables are the state [St] *)
Fixpoint okv_iterate {A St : Type} (dec : list N -> V -> outcome A) (cb : St -> A -> outcome (St * bool))
    (es : okv) (st : St) : outcome St :=
  match es with
  | [] => Ok st
  | (k, v) :: r =>
      do a <- dec k v;
      do res <- cb st a;
      if snd res then Ok (fst res) else okv_iterate dec cb r (fst res)
  end.

(* representation invariant: strictly ascending keys *)
Fixpoint okv_sorted (s : okv) : bool :=
  match s with
  | [] => true
  | (k, _) :: r => match r with [] => true | (k', _) :: _ => lex_lt k k' && okv_sorted r end
  end.

End OKV.
Arguments okv V : clear implicits.
