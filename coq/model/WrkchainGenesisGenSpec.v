(* Vocabulary for the theorems that tie the GENERATED x/wrkchain genesis code (go_InitGenesis, go_ExportGenesis in
   GeneratedWrkchainKeeper.v) to the model of genesis export / import (model/Genesis.v: export_reg, import_reg).
   Definitions only. *)
From MC Require Import lib.Prelude lib.AMap lib.GoSdk GeneratedWrkchainTypes model.Bank model.Registry model.Genesis
  model.WrkchainKeeperPrims GeneratedWrkchainKeeper.

(* the generated genesis document read as the model's *)
Definition rec_of_go (b : go_WrkChainBlockGenesisExport) : Z * record :=
  (WrkChainBlockGenesisExport_He b,
   {| rc_key := WrkChainBlockGenesisExport_He b;
      rc_hashes := [WrkChainBlockGenesisExport_Bh b; WrkChainBlockGenesisExport_Ph b; WrkChainBlockGenesisExport_H1 b;
                    WrkChainBlockGenesisExport_H2 b; WrkChainBlockGenesisExport_H3 b];
      rc_time := WrkChainBlockGenesisExport_St b |}).
Definition entry_of_go (e : go_WrkChainExport) : gen_reg_entry :=
  {| gre_reg := of_go_entity (WrkChainExport_Wrkchain e); gre_limit := WrkChainExport_InStateLimit e;
     gre_recs := map rec_of_go (WrkChainExport_Blocks e) |}.
Definition gen_of_go (g : go_GenesisState) : gen_reg :=
  {| gr_params := params_of_go (GenesisState_Params g); gr_start := GenesisState_StartingWrkchainId g;
     gr_regs := map entry_of_go (GenesisState_RegisteredWrkchains g) |}.

(* a fresh store: what InitGenesis starts from *)
Definition fresh_world (now wall : Z) (p : reg_params) : rworld :=
  mk_rworld now wall {| r_params := p; r_next := 0; r_regs := []; r_limits := []; r_recs := [] |}.
