(* Correspondence check for the paginated list queries (C20): the model of
   query.FilteredPaginate / GenericFilteredPaginate against the real gRPC servers. *)
From MC Require Import lib.Prelude lib.CheckLib model.Paginate.
From Coq Require Import NArith.
Open Scope N_scope.

Inductive page_case :=
| PPage (items : list (N * bool)) (req : page_req) (obs : option (list N * option N * N)).   (* None: error or panic *)

Definition flt_bit (_ : N) (v : bool) : bool := v.

Definition optN_eqb (a b : option N) : bool :=
  match a, b with Some x, Some y => x =? y | None, None => true | _, _ => false end.

Definition page_corr_ok (c : page_case) : bool :=
  match c with
  | PPage items req obs =>
      match filtered_paginate items flt_bit req, obs with
      | Ok r, Some (ks, nk, tot) =>
          list_eqb N.eqb (map fst (res_items r)) ks && optN_eqb (res_next_key r) nk && (res_total r =? tot)
      | Err _, None | Panic _, None => true
      | _, _ => false
      end
  end.

(* single-page soundness on the implementation's answer: only stored matching items, ascending or
   descending without repetition, not more than the limit *)
Fixpoint strictly_mono (rev : bool) (l : list N) : bool :=
  match l with
  | x :: ((y :: _) as r) => (if rev then y <? x else x <? y) && strictly_mono rev r
  | _ => true
  end.

(* offset paging, stated directly (independently of the model of FilteredPaginate): the page is the slice
   [offset, offset + limit) of the stored matching items in iteration order, and a reported total (count_total, or the
   default page) is the number of stored matching items *)
Definition matching_keys (items : list (N * bool)) (rev : bool) : list N :=
  let ks := map fst (filter (fun kv => snd kv) items) in if rev then List.rev ks else ks.

Definition offset_page_ok (items : list (N * bool)) (req : page_req) (ks : list N) (tot : N) : bool :=
  match pr_key req with
  | KeyNil =>
      let all := matching_keys items (pr_reverse req) in
      let n := N.of_nat (List.length all) in
      (* (offsets and limits are uint64: clip them to the list length before turning them into unary numbers) *)
      list_eqb N.eqb ks (firstn (N.to_nat (N.min (eff_limit req) n)) (skipn (N.to_nat (N.min (pr_offset req) n)) all))
      && (if eff_count_total req then tot =? N.of_nat (List.length all) else true)
  | _ => true
  end.

Definition page_mon_ok (c : page_case) : bool :=
  match c with
  | PPage items req (Some (ks, _, tot)) =>
      forallb (fun k => existsb (fun kv => (fst kv =? k) && snd kv) items) ks
      && strictly_mono (pr_reverse req) ks
      && (N.of_nat (List.length ks) <=? eff_limit req)
      && offset_page_ok items req ks tot
  | _ => true
  end.

Definition page_bad_corr (l : list page_case) : list nat := bad_indices page_corr_ok 0 l.
Definition page_bad_mon (l : list page_case) : list nat := bad_indices page_mon_ok 0 l.
