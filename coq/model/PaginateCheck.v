(* Correspondence check for the paginated list queries (C20): the model of
   query.FilteredPaginate / GenericFilteredPaginate against the real gRPC servers. *)
From MC Require Import lib.Prelude lib.CheckLib model.Paginate.
From Coq Require Import NArith.
Open Scope N_scope.

Inductive page_case :=
| PPage (items : list (N * bool)) (req : page_req) (obs : option (list N * option N * N)).   (* None: error or panic *)

Definition flt_bit (_ : N) (v : bool) : bool := v.

Definition optN_eqb (a b : option N) : bool :=
  match a, b with Some x, Some y => x =? y | None, None => true | _, _ => false end.

Definition page_corr_ok (c : page_case) : bool :=
  match c with
  | PPage items req obs =>
      match filtered_paginate items flt_bit req, obs with
      | Ok r, Some (ks, nk, tot) =>
          list_eqb N.eqb (map fst (res_items r)) ks && optN_eqb (res_next_key r) nk && (res_total r =? tot)
      | Err _, None | Panic _, None => true
      | _, _ => false
      end
  end.

(* single-page soundness on the implementation's answer: only stored matching items, ascending or
   descending without repetition, not more than the limit *)
Fixpoint strictly_mono (rev : bool) (l : list N) : bool :=
  match l with
  | x :: ((y :: _) as r) => (if rev then y <? x else x <? y) && strictly_mono rev r
  | _ => true
  end.

Definition page_mon_ok (c : page_case) : bool :=
  match c with
  | PPage items req (Some (ks, _, _)) =>
      forallb (fun k => existsb (fun kv => (fst kv =? k) && snd kv) items) ks
      && strictly_mono (pr_reverse req) ks
      && (N.of_nat (List.length ks) <=? eff_limit req)
  | _ => true
  end.

Definition page_bad_corr (l : list page_case) : list nat := bad_indices page_corr_ok 0 l.
Definition page_bad_mon (l : list page_case) : list nat := bad_indices page_mon_ok 0 l.
