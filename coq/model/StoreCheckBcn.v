(* Correspondence check for the TRANSLATED store accessors of x/beacon (GeneratedBeaconStore.v): see StoreCheckWrk.v.
   The harness (vharness store) runs a sequence of keeper calls on the real keeper and records what each returned;
   here the generated functions run the same sequence from the empty store.  Executable, no proofs.
   x/beacon has no paginated timestamp iterator and no "lowest id in state" accessor; deleteBeaconTimestamp is
   unexported (not callable from the harness). *)
From Coq Require Import String NArith.
From MC Require Import lib.Prelude lib.GoSdk lib.CheckLib model.Keys model.KVStore GeneratedBeaconTypes GeneratedBeaconStore.
Open Scope Z_scope.

Inductive bst_op :=
| BoSetParams (p : go_Params) (ok : bool)
| BoGetParams (obs : go_Params)
| BoSetHighest (n : Z)
| BoGetHighest (obs : option Z)
| BoSetBeacon (b : go_Beacon)
| BoGetBeacon (id : Z) (obs : go_Beacon * bool)
| BoIsReg (id : Z) (obs : bool)
| BoAllBeacons (obs : list go_Beacon)
| BoBeaconsStop (obs : list go_Beacon)                    (* IterateBeacons with a callback that stops after 2 elements *)
| BoSetLimit (id l : Z)
| BoGetLimit (id : Z) (obs : go_BeaconStorageLimit * bool)
| BoHasLimit (id : Z) (obs : bool)
| BoSetTs (id : Z) (t : go_BeaconTimestamp)
| BoGetTs (id tid : Z) (obs : go_BeaconTimestamp * bool)
| BoIsRecorded (id tid : Z) (obs : bool)
| BoAllTs (id : Z) (obs : list go_BeaconTimestamp)
| BoTsRev (id : Z) (obs : list go_BeaconTimestamp)
| BoFirstStop (id : Z) (obs : list go_BeaconTimestamp)    (* IterateBeaconTimestamps, callback stops after 2 elements *)
| BoRevStop (id : Z) (obs : list go_BeaconTimestamp).     (* IterateBeaconTimestampsReverse, callback stops at the first *)

Definition bparams_eqb (a b : go_Params) : bool :=
  (Params_FeeRegister a =? Params_FeeRegister b) && (Params_FeeRecord a =? Params_FeeRecord b) &&
  (Params_FeePurchaseStorage a =? Params_FeePurchaseStorage b) && (Params_Denom a =? Params_Denom b) &&
  (Params_DefaultStorageLimit a =? Params_DefaultStorageLimit b) && (Params_MaxStorageLimit a =? Params_MaxStorageLimit b).
Definition beacon_eqb (a b : go_Beacon) : bool :=
  (Beacon_BeaconId a =? Beacon_BeaconId b) && String.eqb (Beacon_Moniker a) (Beacon_Moniker b) &&
  String.eqb (Beacon_Name a) (Beacon_Name b) && (Beacon_LastTimestampId a =? Beacon_LastTimestampId b) &&
  (Beacon_FirstIdInState a =? Beacon_FirstIdInState b) && (Beacon_NumInState a =? Beacon_NumInState b) &&
  (Beacon_RegTime a =? Beacon_RegTime b) && (Beacon_Owner a =? Beacon_Owner b).
Definition blimit_eqb (a b : go_BeaconStorageLimit) : bool :=
  (BeaconStorageLimit_BeaconId a =? BeaconStorageLimit_BeaconId b) &&
  (BeaconStorageLimit_InStateLimit a =? BeaconStorageLimit_InStateLimit b).
Definition ts_eqb (a b : go_BeaconTimestamp) : bool :=
  (BeaconTimestamp_TimestampId a =? BeaconTimestamp_TimestampId b) && (BeaconTimestamp_SubmitTime a =? BeaconTimestamp_SubmitTime b) &&
  String.eqb (BeaconTimestamp_Hash a) (BeaconTimestamp_Hash b).

Definition bstore := okv beacon_val.

Definition rd {A} (o : outcome A) (eqb : A -> A -> bool) (obs : A) : bool :=
  match o with Ok a => eqb a obs | _ => false end.
Definition pair_b {A} (eqb : A -> A -> bool) (x y : A * bool) : bool := eqb (fst x) (fst y) && Bool.eqb (snd x) (snd y).
Definition wr (s : bstore) (o : outcome (bstore * unit)) : bstore * bool :=
  match o with Ok (s', _) => (s', true) | _ => (s, false) end.
Definition append_cb {A} (acc : list A) (a : A) : outcome (list A * bool) := Ok (acc ++ [a], false).
Definition stop1_cb {A} (acc : list A) (a : A) : outcome (list A * bool) := Ok (acc ++ [a], true).
Definition stop2_cb {A} (acc : list A) (a : A) : outcome (list A * bool) :=
  let acc' := acc ++ [a] in Ok (acc', (2 <=? Z.of_nat (List.length acc'))).

Definition bst_step (s : bstore) (op : bst_op) : bstore * bool :=
  match op with
  | BoSetParams p ok =>
      match go_st_SetParams s p with
      | Ok (s', _) => (s', ok)
      | _ => (s, negb ok)
      end
  | BoGetParams obs => (s, rd (go_st_GetParams s) bparams_eqb obs)
  | BoSetHighest n => wr s (go_st_SetHighestBeaconID s n)
  | BoGetHighest obs =>
      (s, match go_st_GetHighestBeaconID s, obs with
          | Ok a, Some b => a =? b
          | Err _, None => true
          | _, _ => false
          end)
  | BoSetBeacon b => wr s (go_st_SetBeacon s b)
  | BoGetBeacon id obs => (s, rd (go_st_GetBeacon s id) (pair_b beacon_eqb) obs)
  | BoIsReg id obs => (s, rd (go_st_IsBeaconRegistered s id) Bool.eqb obs)
  | BoAllBeacons obs => (s, rd (go_st_GetAllBeacons s) (list_eqb beacon_eqb) obs)
  | BoBeaconsStop obs => (s, rd (go_st_IterateBeacons s stop2_cb []) (list_eqb beacon_eqb) obs)
  | BoSetLimit id l => wr s (go_st_SetBeaconStorageLimit s id l)
  | BoGetLimit id obs => (s, rd (go_st_GetBeaconStorageLimit s id) (pair_b blimit_eqb) obs)
  | BoHasLimit id obs => (s, rd (go_st_HasBeaconStorageLimit s id) Bool.eqb obs)
  | BoSetTs id t => wr s (go_st_SetBeaconTimestamp s id t)
  | BoGetTs id tid obs => (s, rd (go_st_GetBeaconTimestampByID s id tid) (pair_b ts_eqb) obs)
  | BoIsRecorded id tid obs => (s, rd (go_st_IsBeaconTimestampRecordedByID s id tid) Bool.eqb obs)
  | BoAllTs id obs => (s, rd (go_st_GetAllBeaconTimestamps s id) (list_eqb ts_eqb) obs)
  | BoTsRev id obs => (s, rd (go_st_IterateBeaconTimestampsReverse s id append_cb []) (list_eqb ts_eqb) obs)
  | BoFirstStop id obs => (s, rd (go_st_IterateBeaconTimestamps s id stop2_cb []) (list_eqb ts_eqb) obs)
  | BoRevStop id obs => (s, rd (go_st_IterateBeaconTimestampsReverse s id stop1_cb []) (list_eqb ts_eqb) obs)
  end.

Fixpoint bst_run (s : bstore) (i : nat) (ops : list bst_op) : list nat :=
  match ops with
  | [] => []
  | op :: r => let '(s', ok) := bst_step s op in (if ok then [] else [i]) ++ bst_run s' (S i) r
  end.

(* one history = one sequence from the empty store; the representation invariant of the store model is checked at
   the end of every history as well *)
Fixpoint bst_final (s : bstore) (ops : list bst_op) : bstore :=
  match ops with [] => s | op :: r => bst_final (fst (bst_step s op)) r end.
Definition bst_bad_history (ops : list bst_op) : bool :=
  negb (match bst_run [] 0 ops with [] => true | _ => false end) || negb (okv_sorted (bst_final [] ops)).
Definition bst_bad_corr (hs : list (list bst_op)) : list nat := bad_indices (fun h => negb (bst_bad_history h)) 0 hs.
(* diagnosis: the failing op indices of every bad history *)
Definition bst_bad_ops (hs : list (list bst_op)) : list (list nat) := map (fun h => bst_run [] 0 h) hs.
