(* Correspondence check for the TRANSLATED store accessors of x/stream (GeneratedStreamStore.v): see StoreCheckWrk.v.
   Addresses are byte strings here (1..255 bytes, as the keys see them).  Executable, no proofs. *)
From Coq Require Import String NArith.
From MC Require Import lib.Prelude lib.GoSdk lib.CheckLib model.Keys model.KVStore GeneratedStreamTypes GeneratedStreamStore.
Open Scope Z_scope.

Inductive sst_op :=
| SoSetParams (p : go_Params) (ok : bool)
| SoGetParams (obs : go_Params)
| SoSetStream (r sn : list N) (st : go_Stream) (ok : bool)      (* ok = false: MustMarshal panicked *)
| SoIsStream (r sn : list N) (obs : bool)
| SoGetStream (r sn : list N) (obs : go_Stream * bool)
| SoDelStream (r sn : list N)
| SoAllStreams (obs : list (list N * list N * go_Stream))
| SoFirstStream (obs : list (list N * list N * go_Stream)).      (* callback stops at the first element *)

Definition coin_eqb (a b : go_coin) : bool := (fst a =? fst b) && (snd a =? snd b).
Definition stream_eqb (a b : go_Stream) : bool :=
  coin_eqb (Stream_Deposit a) (Stream_Deposit b) && (Stream_FlowRate a =? Stream_FlowRate b) &&
  (Stream_LastOutflowTime a =? Stream_LastOutflowTime b) && (Stream_DepositZeroTime a =? Stream_DepositZeroTime b) &&
  Bool.eqb (Stream_Cancellable a) (Stream_Cancellable b).
Definition entry_eqb (a b : list N * list N * go_Stream) : bool :=
  key_eqb (fst (fst a)) (fst (fst b)) && key_eqb (snd (fst a)) (snd (fst b)) && stream_eqb (snd a) (snd b).

Definition sstore := okv stream_val.
Definition rd {A} (o : outcome A) (eqb : A -> A -> bool) (obs : A) : bool :=
  match o with Ok a => eqb a obs | _ => false end.
Definition pair_b {A} (eqb : A -> A -> bool) (x y : A * bool) : bool := eqb (fst x) (fst y) && Bool.eqb (snd x) (snd y).
Definition append_cb {A} (acc : list A) (a : A) : outcome (list A * bool) := Ok (acc ++ [a], false).
Definition stop1_cb {A} (acc : list A) (a : A) : outcome (list A * bool) := Ok (acc ++ [a], true).

Definition sst_step (s : sstore) (op : sst_op) : sstore * bool :=
  match op with
  | SoSetParams p ok => match go_st_SetParams s p with Ok (s', _) => (s', ok) | _ => (s, negb ok) end
  | SoGetParams obs => (s, rd (go_st_GetParams s) (fun a b => Params_ValidatorFee a =? Params_ValidatorFee b) obs)
  | SoSetStream r sn st ok => match go_st_SetStream s r sn st with Ok (s', _) => (s', ok) | Panic _ => (s, negb ok) | Err _ => (s, false) end
  | SoIsStream r sn obs => (s, rd (go_st_IsStream s r sn) Bool.eqb obs)
  | SoGetStream r sn obs => (s, rd (go_st_GetStream s r sn) (pair_b stream_eqb) obs)
  | SoDelStream r sn => match go_st_DeleteStream s r sn with Ok (s', _) => (s', true) | _ => (s, false) end
  | SoAllStreams obs => (s, rd (go_st_IterateAllStreams s append_cb []) (list_eqb entry_eqb) obs)
  | SoFirstStream obs => (s, rd (go_st_IterateAllStreams s stop1_cb []) (list_eqb entry_eqb) obs)
  end.

Fixpoint sst_run (s : sstore) (i : nat) (ops : list sst_op) : list nat :=
  match ops with
  | [] => []
  | op :: r => let '(s', ok) := sst_step s op in (if ok then [] else [i]) ++ sst_run s' (S i) r
  end.
Fixpoint sst_final (s : sstore) (ops : list sst_op) : sstore :=
  match ops with [] => s | op :: r => sst_final (fst (sst_step s op)) r end.
Definition sst_bad_history (ops : list sst_op) : bool :=
  negb (match sst_run [] 0 ops with [] => true | _ => false end) || negb (okv_sorted (sst_final [] ops)).
Definition sst_bad_corr (hs : list (list sst_op)) : list nat := bad_indices (fun h => negb (sst_bad_history h)) 0 hs.
