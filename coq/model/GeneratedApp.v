(* The application of model/App.v with every module-level step replaced by the code GENERATED from /repo:
     - the four message servers (GeneratedStreamKeeper / GeneratedWrkchainKeeper / GeneratedBeaconKeeper /
       GeneratedEnterpriseKeeper, driven through the *GenSpec vocabularies);
     - every module message's ValidateBasic and every module's Params.Validate;
     - the four UpdateParams handlers;
     - x/enterprise's BeginBlocker (ProcessAcceptedPurchaseOrders; TallyPurchaseOrderDecisions);
     - the fee decorators' transaction detection and exact-fee check (x/wrkchain/ante, x/beacon/ante) and the
       enterprise decorator's UnlockCoinsForFees.
   What stays hand-written here is what model/App.v itself describes of the SDK: baseapp.runTx's cache layers, authz
   nesting, bank MsgSend, feegrant, x/auth's fee deduction, distribution's sweep, governance execution, the node's
   three states.  Definitions only; proofs/GeneratedAppEq.v proves this application equal to model/App.v's. *)
From MC Require Import lib.Prelude lib.AMap lib.GoSdk model.Bank model.Stream model.Registry model.Enterprise model.App
  model.AppSpec.
From MC Require GeneratedStreamTypes GeneratedStreamKeeper GeneratedWrkchainTypes GeneratedWrkchainKeeper
  GeneratedBeaconTypes GeneratedBeaconKeeper GeneratedEnterpriseTypes GeneratedEnterpriseKeeper.
From MC Require model.StreamKeeperPrims model.RegistryWorld model.WrkchainKeeperPrims model.BeaconKeeperPrims
  model.EnterpriseKeeperPrims.
From MC Require model.StreamGenSpec model.WrkchainGenSpec model.BeaconGenSpec model.EnterpriseGenSpec
  model.WrkchainAnteGenSpec model.BeaconAnteGenSpec.
From MC Require proofs.GeneratedStreamValidateEq proofs.GeneratedWrkchainValidateEq proofs.GeneratedBeaconValidateEq
  proofs.GeneratedEnterpriseEq.

(* the worlds of the four translated modules, cut out of the application state *)
Definition str_world (a : app) : StreamKeeperPrims.kworld :=
  StreamKeeperPrims.mk_kworld (a_now a) (a_bank a) (a_str a).
Definition wrk_world (a : app) : RegistryWorld.rworld := RegistryWorld.mk_rworld (a_now a) 0 (a_wrk a).
Definition bcn_world (a : app) : RegistryWorld.rworld := RegistryWorld.mk_rworld (a_now a) 0 (a_bcn a).
Definition ent_world_of (a : app) : EnterpriseKeeperPrims.eworld :=
  EnterpriseKeeperPrims.mk_eworld (a_now a) (a_bank a) (a_ent a).

(* Params.Validate of the module the update is for *)
Definition go_upd_validate (u : upd_params) : outcome unit :=
  match u with
  | UEnt p => GeneratedEnterpriseKeeper.go_Params_Validate (EnterpriseKeeperPrims.params_to_go p)
  | UWrk p => GeneratedWrkchainKeeper.go_Params_Validate (WrkchainKeeperPrims.params_to_go p)
  | UBcn p => GeneratedBeaconKeeper.go_Params_Validate (BeaconKeeperPrims.params_to_go p)
  | UStr v => GeneratedStreamKeeper.go_Params_Validate (GeneratedStreamTypes.mk_go_Params v)
  end.

(* every error of a ValidateBasic outside the four modules' own messages is one class (ERR_APP) in model/App.v *)
Definition as_app_err (o : outcome unit) : outcome unit :=
  match o with Ok _ => Ok tt | Err _ => Err ERR_APP | Panic c => Panic c end.

Fixpoint go_validate_basic (fuel : nat) (m : msg) : outcome unit :=
  match fuel with
  | O => Err ERR_OUT_OF_FUEL
  | S f =>
      match m with
      | MEnt e => EnterpriseGenSpec.ent_go_validate_basic e
      | MWrk r => GeneratedWrkchainValidateEq.wrk_validate_basic r
      | MBcn r => GeneratedBeaconValidateEq.bcn_validate_basic r
      | MStr s => GeneratedStreamValidateEq.go_str_validate_basic s
      | MSend _ _ coins => if coins_valid coins && negb (Nat.eqb (List.length coins) 0) then Ok tt else Err ERR_APP
      | MGrant granter grantee _ => if granter =? grantee then Err ERR_APP else Ok tt
      | MFeeAllow granter grantee => if granter =? grantee then Err ERR_APP else Ok tt
      | MExec _ inner =>
          if Nat.eqb (List.length inner) 0 then Err ERR_APP else
          fold_left (fun acc i => do _ <- acc; go_validate_basic f i) inner (Ok tt)
      | MUpdParams _ u => as_app_err (go_upd_validate u)
      end
  end.

(* the generated UpdateParams handler of the module the update is for *)
Definition go_update_params (a : app) (authority : addr) (u : upd_params) : outcome app :=
  match u with
  | UEnt p =>
      do (w', _) <- GeneratedEnterpriseKeeper.go_UpdateParams (ent_world_of a)
                      (GeneratedEnterpriseTypes.mk_go_MsgUpdateParams authority (EnterpriseKeeperPrims.params_to_go p));
      Ok (with_ent a (EnterpriseKeeperPrims.ew_bank w') (EnterpriseKeeperPrims.ew_ent w'))
  | UWrk p =>
      do (w', _) <- GeneratedWrkchainKeeper.go_UpdateParams (wrk_world a)
                      (GeneratedWrkchainTypes.mk_go_MsgUpdateParams authority (WrkchainKeeperPrims.params_to_go p));
      Ok (with_wrk a (RegistryWorld.rw_reg w'))
  | UBcn p =>
      do (w', _) <- GeneratedBeaconKeeper.go_UpdateParams (bcn_world a)
                      (GeneratedBeaconTypes.mk_go_MsgUpdateParams authority (BeaconKeeperPrims.params_to_go p));
      Ok (with_bcn a (RegistryWorld.rw_reg w'))
  | UStr v =>
      do (w', _) <- GeneratedStreamKeeper.go_UpdateParams (str_world a)
                      (GeneratedStreamTypes.mk_go_MsgUpdateParams authority (GeneratedStreamTypes.mk_go_Params v));
      Ok (with_str a (StreamKeeperPrims.kw_bank w') (StreamKeeperPrims.kw_str w'))
  end.

Fixpoint go_exec_msg (fuel : nat) (a : app) (m : msg) : outcome app :=
  match fuel with
  | O => Err ERR_OUT_OF_FUEL
  | S f =>
      match m with
      | MEnt e =>
          do (w', _) <- EnterpriseGenSpec.ent_msg_exec (ent_world_of a) e;
          Ok (with_ent a (EnterpriseKeeperPrims.ew_bank w') (EnterpriseKeeperPrims.ew_ent w'))
      | MWrk r =>
          do (w', _) <- WrkchainGenSpec.wrk_msg_exec (wrk_world a) r;
          Ok (with_wrk a (RegistryWorld.rw_reg w'))
      | MBcn r =>
          do (w', _) <- BeaconGenSpec.bcn_msg_exec (bcn_world a) r;
          Ok (with_bcn a (RegistryWorld.rw_reg w'))
      | MStr s =>
          do (w', _) <- StreamGenSpec.go_msg_exec (str_world a) s;
          Ok (with_str a (StreamKeeperPrims.kw_bank w') (StreamKeeperPrims.kw_str w'))
      | MSend from to coins =>
          if blocked to then Err ERR_UNAUTHORIZED else
          if negb (can_afford (a_bank a) from coins) then Err ERR_INSUFFICIENT else
          do b' <- send_coins (a_bank a) from to coins;
          Ok (with_bank a b')
      | MGrant granter grantee typ =>
          Ok {| a_bank := a_bank a; a_ent := a_ent a; a_wrk := a_wrk a; a_bcn := a_bcn a; a_str := a_str a;
                a_grants := (granter, grantee, typ) :: a_grants a; a_allow := a_allow a; a_now := a_now a |}
      | MFeeAllow granter grantee =>
          if existsb (fun g => (fst g =? granter) && (snd g =? grantee)) (a_allow a) then Err ERR_APP else
          Ok {| a_bank := a_bank a; a_ent := a_ent a; a_wrk := a_wrk a; a_bcn := a_bcn a; a_str := a_str a;
                a_grants := a_grants a; a_allow := (granter, grantee) :: a_allow a; a_now := a_now a |}
      | MExec grantee inner =>
          fold_left (fun acc i =>
                       do a1 <- acc;
                       if (msg_signer i =? grantee) || has_grant a1 (msg_signer i) grantee (msg_type i)
                       then go_exec_msg f a1 i else Err ERR_AUTHZ)
                    inner (Ok a)
      | MUpdParams authority u => go_update_params a authority u
      end
  end.

(* ---- the ante chain with the generated decorators' logic ---- *)

(* the one panic of the generated fee check is sdk.NewCoin's "negative coin amount" (GO_PANIC_NEGCOIN = 4 of
   lib/GoSdk.v), raised for a purchase of 2^63 slots or more; model/App.v names that same panic PANIC_NEGFEE = 55.
   Panics of the fee check are one class (proofs/GeneratedWrkchainAnteEq.v: gen_wrk_checkFees_total,
   panic_codes_differ; proofs/GeneratedAppEq.v: gen_checkFees_panic_code_refuted shows the raw codes differ) *)
Definition as_fee_panic (o : outcome unit) : outcome unit :=
  match o with Panic _ => Panic PANIC_NEGFEE | _ => o end.
Definition go_wrk_ante (check : bool) (a : app) (t : tx) : outcome unit :=
  do is_wrk <- GeneratedWrkchainKeeper.go_CheckIsWrkChainTx (WrkchainAnteGenSpec.gotx_of t);
  if negb is_wrk then Ok tt else
  do _ <- (if check
           then as_fee_panic (GeneratedWrkchainKeeper.go_checkWrkchainFees (wrk_world a) (WrkchainAnteGenSpec.gotx_of t))
           else Ok tt);
  do _ <- payer_has_funds (a_wrk a) (a_bank a) (a_ent a) t;
  check_max_slots pick_wrk (a_wrk a) t.

Definition go_bcn_ante (check : bool) (a : app) (t : tx) : outcome unit :=
  do is_bcn <- GeneratedBeaconKeeper.go_CheckIsBeaconTx (BeaconAnteGenSpec.gotx_of t);
  if negb is_bcn then Ok tt else
  do _ <- (if check
           then as_fee_panic (GeneratedBeaconKeeper.go_checkBeaconFees (bcn_world a) (BeaconAnteGenSpec.gotx_of t))
           else Ok tt);
  do _ <- payer_has_funds (a_bcn a) (a_bank a) (a_ent a) t;
  check_max_slots pick_bcn (a_bcn a) t.

Definition go_ante (check : bool) (a : app) (t : tx) : outcome app :=
  if negb (coins_valid (tx_fee t)) then Err ERR_APP else
  do _ <- go_wrk_ante check a t;
  do _ <- go_bcn_ante check a t;
  do a1 <- GeneratedEnterpriseEq.go_unlock_ante a t;
  do a2 <- deduct_fee a1 t;
  if tx_sig_ok t then Ok a2 else Err ERR_BAD_SIG.

Definition go_validate_all (t : tx) : outcome unit :=
  match tx_msgs t with
  | [] => Err ERR_APP
  | ms => fold_left (fun acc m => do _ <- acc; go_validate_basic (tx_fuel t) m) ms (Ok tt)
  end.

Definition go_exec_all (a : app) (t : tx) : outcome app :=
  fold_left (fun acc m => do a1 <- acc; go_exec_msg (tx_fuel t) a1 m) (tx_msgs t) (Ok a).

Definition go_deliver_tx (a : app) (t : tx) : app * tx_result :=
  match go_validate_all t with
  | Err c => (a, TxRejected c)
  | Panic c => (a, TxPanicked 0 c)
  | Ok _ =>
      match go_ante false a t with
      | Err c => (a, TxRejected c)
      | Panic c => (a, TxPanicked 1 c)
      | Ok a1 =>
          match go_exec_all a1 t with
          | Ok a2 => (a2, TxOk)
          | Err c => (a1, TxFailed c)
          | Panic c => (a1, TxPanicked 2 c)
          end
      end
  end.

Definition go_check_tx (a : app) (t : tx) : app * tx_result :=
  match go_validate_all t with
  | Err c => (a, TxRejected c)
  | Panic c => (a, TxPanicked 0 c)
  | Ok _ =>
      match go_ante true a t with
      | Err c => (a, TxRejected c)
      | Panic c => (a, TxPanicked 1 c)
      | Ok a1 => (a1, TxOk)
      end
  end.

(* BeginBlock: the generated enterprise BeginBlocker, then the fee sweep *)
Definition go_begin_block (a : app) (now : Z) : option app :=
  let a0 := with_time a now in
  match EnterpriseGenSpec.go_ent_begin_block (ent_world_of a0) with
  | Ok (w', _) => Some (with_ent a0 (sweep_fees (EnterpriseKeeperPrims.ew_bank w')) (EnterpriseKeeperPrims.ew_ent w'))
  | _ => None
  end.

Definition go_exec_proposal (a : app) (ms : list msg) : app :=
  match fold_left (fun acc m => do a1 <- acc; go_exec_msg (S (S (msg_depth m))) a1 m) ms (Ok a) with
  | Ok a' => a'
  | _ => a
  end.

Definition go_end_block (a : app) (proposals : list (list msg)) : app :=
  fold_left go_exec_proposal proposals a.

Definition go_node_step (n : node) (o : op) : option (node * option tx_result) :=
  match o with
  | OpBegin now =>
      match go_begin_block (n_committed n) now with
      | Some a => Some ({| n_committed := n_committed n; n_deliver := Some a; n_check := n_check n |}, None)
      | None => None
      end
  | OpDeliver t =>
      match n_deliver n with
      | Some a => let '(a', r) := go_deliver_tx a t in
                  Some ({| n_committed := n_committed n; n_deliver := Some a'; n_check := n_check n |}, Some r)
      | None => None
      end
  | OpCheck t =>
      let '(c', r) := go_check_tx (n_check n) t in
      Some ({| n_committed := n_committed n; n_deliver := n_deliver n; n_check := c' |}, Some r)
  | OpEnd props =>
      match n_deliver n with
      | Some a => Some ({| n_committed := n_committed n; n_deliver := Some (go_end_block a props); n_check := n_check n |}, None)
      | None => None
      end
  | OpCommit =>
      match n_deliver n with
      | Some a => Some ({| n_committed := a; n_deliver := None; n_check := a |}, None)
      | None => None
      end
  | OpCrash =>
      Some ({| n_committed := n_committed n; n_deliver := None; n_check := n_committed n |}, None)
  end.

Fixpoint go_node_run (n : node) (h : list op) : option node :=
  match h with
  | [] => Some n
  | o :: r => match go_node_step n o with Some (n', _) => go_node_run n' r | None => None end
  end.

(* ================================================================================================ *)
(* The application with the WHOLE fee decorators generated: x/wrkchain/ante and x/beacon/ante AnteHandle           *)
(* (GeneratedWrkchainAnte.v, GeneratedBeaconAnte.v: transaction detection, exact-fee check, funds check,            *)
(* max-slots check and their sequencing by IsCheckTx / simulate) and x/enterprise/ante AnteHandle                   *)
(* (GeneratedEnterpriseAnte.v: the guard around UnlockCoinsForFees).  The definitions above are left as they are;    *)
(* proofs/GeneratedAnteHandleEq.v proves the two applications equal.                                                *)
(* ================================================================================================ *)
From MC Require model.AnteWorld GeneratedWrkchainAnte GeneratedBeaconAnte GeneratedEnterpriseAnte
  model.EnterpriseAnteGenSpec.

(* the worlds of the two registry decorators (model/AnteWorld.v): block time, CheckTx flag, bank, enterprise state and the
   module's own registry state *)
Definition wrk_aworld (check : bool) (a : app) : AnteWorld.aworld :=
  AnteWorld.mk_aworld (a_now a) check (a_bank a) (a_ent a) (a_wrk a).
Definition bcn_aworld (check : bool) (a : app) : AnteWorld.aworld :=
  AnteWorld.mk_aworld (a_now a) check (a_bank a) (a_ent a) (a_bcn a).

(* the one code that differs between lib/GoSdk.v and model/App.v: sdk.NewCoin's "negative coin amount"
   (GO_PANIC_NEGCOIN = 4) is the model's PANIC_NEGFEE = 55.  Unlike [as_fee_panic] every other panic keeps its code (the
   funds check's nil-coin panic is 22 on both sides). *)
Definition as_negcoin_panic (o : outcome unit) : outcome unit :=
  match o with Panic c => Panic (if c =? GO_PANIC_NEGCOIN then PANIC_NEGFEE else c) | _ => o end.

Definition go_wrk_ante_full (check : bool) (a : app) (t : tx) : outcome unit :=
  as_negcoin_panic (GeneratedWrkchainAnte.go_AnteHandle (wrk_aworld check a) (WrkchainAnteGenSpec.gotx_of t) false).
Definition go_bcn_ante_full (check : bool) (a : app) (t : tx) : outcome unit :=
  as_negcoin_panic (GeneratedBeaconAnte.go_AnteHandle (bcn_aworld check a) (BeaconAnteGenSpec.gotx_of t) false).

(* x/enterprise/ante: the generated AnteHandle on the enterprise world, its result put back into the application *)
Definition go_unlock_ante_full (a : app) (t : tx) : outcome app :=
  do (w', _) <- GeneratedEnterpriseAnte.go_AnteHandle (ent_world_of a) (EnterpriseAnteGenSpec.ent_gotx_of t) false;
  Ok (with_ent a (EnterpriseKeeperPrims.ew_bank w') (EnterpriseKeeperPrims.ew_ent w')).

Definition go_ante_full (check : bool) (a : app) (t : tx) : outcome app :=
  if negb (coins_valid (tx_fee t)) then Err ERR_APP else
  do _ <- go_wrk_ante_full check a t;
  do _ <- go_bcn_ante_full check a t;
  do a1 <- go_unlock_ante_full a t;
  do a2 <- deduct_fee a1 t;
  if tx_sig_ok t then Ok a2 else Err ERR_BAD_SIG.

Definition go_deliver_tx_full (a : app) (t : tx) : app * tx_result :=
  match go_validate_all t with
  | Err c => (a, TxRejected c)
  | Panic c => (a, TxPanicked 0 c)
  | Ok _ =>
      match go_ante_full false a t with
      | Err c => (a, TxRejected c)
      | Panic c => (a, TxPanicked 1 c)
      | Ok a1 =>
          match go_exec_all a1 t with
          | Ok a2 => (a2, TxOk)
          | Err c => (a1, TxFailed c)
          | Panic c => (a1, TxPanicked 2 c)
          end
      end
  end.

Definition go_check_tx_full (a : app) (t : tx) : app * tx_result :=
  match go_validate_all t with
  | Err c => (a, TxRejected c)
  | Panic c => (a, TxPanicked 0 c)
  | Ok _ =>
      match go_ante_full true a t with
      | Err c => (a, TxRejected c)
      | Panic c => (a, TxPanicked 1 c)
      | Ok a1 => (a1, TxOk)
      end
  end.

Definition go_node_step_full (n : node) (o : op) : option (node * option tx_result) :=
  match o with
  | OpBegin now =>
      match go_begin_block (n_committed n) now with
      | Some a => Some ({| n_committed := n_committed n; n_deliver := Some a; n_check := n_check n |}, None)
      | None => None
      end
  | OpDeliver t =>
      match n_deliver n with
      | Some a => let '(a', r) := go_deliver_tx_full a t in
                  Some ({| n_committed := n_committed n; n_deliver := Some a'; n_check := n_check n |}, Some r)
      | None => None
      end
  | OpCheck t =>
      let '(c', r) := go_check_tx_full (n_check n) t in
      Some ({| n_committed := n_committed n; n_deliver := n_deliver n; n_check := c' |}, Some r)
  | OpEnd props =>
      match n_deliver n with
      | Some a => Some ({| n_committed := n_committed n; n_deliver := Some (go_end_block a props); n_check := n_check n |}, None)
      | None => None
      end
  | OpCommit =>
      match n_deliver n with
      | Some a => Some ({| n_committed := a; n_deliver := None; n_check := a |}, None)
      | None => None
      end
  | OpCrash =>
      Some ({| n_committed := n_committed n; n_deliver := None; n_check := n_committed n |}, None)
  end.

Fixpoint go_node_run_full (n : node) (h : list op) : option node :=
  match h with
  | [] => Some n
  | o :: r => match go_node_step_full n o with Some (n', _) => go_node_run_full n' r | None => None end
  end.
