(* Hand-written companions of the translated store accessors (Generated*Store.v), trusted:
     - marshal_check_<T>: when k.cdc.MustMarshal(&x) panics.  Only x/stream's Stream carries google.protobuf.Timestamp
       fields (gogoproto stdtime): a time outside 0001-01-01 .. 9999-12-31 cannot be encoded (the same check as
       model/Stream.v's set_stream);
     - the module error class of an accessor that returns an error (GetHighest*ID without a stored counter);
     - types.DefaultStorageLimit, the value the Get*StorageLimit accessors answer with when nothing is stored;
     - bech32 decoding of the owner string of a stored record: the address bytes of the abstract address
       (a parameter of the development, see proofs/GeneratedEnterpriseStoreEq.v). *)
From MC Require Import lib.Prelude lib.GoSdk model.Stream model.Registry GeneratedStreamTypes.

Definition marshal_check_Stream (x : go_Stream) : outcome unit :=
  if time_storable (Stream_LastOutflowTime x) && time_storable (Stream_DepositZeroTime x) then Ok tt else Panic PANIC_MARSHAL.

Definition STORE_ERR : Z := 10.                               (* = ERR_REG of model/Registry.v: one class per module *)
Definition store_const_DefaultStorageLimit : Z := MODULE_DEFAULT_LIMIT.
Definition STORE_ERR_SDK : Z := 7.                            (* sdkerrors.ErrInvalidAddress *)
Definition Addr_bytes_Empty (a : list N) : bool := match a with [] => true | _ => false end.   (* AccAddress.Empty(): len == 0 *)
Definition store_const_MaxBlockSubmissionsKeepInState : Z := 20000.   (* types.MaxBlockSubmissionsKeepInState: the export cap (a translator constant, see Generated.v consts) *)
Definition store_prepend {A} (x : list A) (y : A) : list A := y :: x.   (* prependBlock / prependTimestamp of keeper/record.go *)
Definition store_const_MaxHashSubmissionsToExport : Z := 20000.       (* x/beacon types.MaxHashSubmissionsToExport *)
