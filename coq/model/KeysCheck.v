(* Correspondence check and implementation-side monitor for C18 (executable, no proofs). *)
From MC Require Import lib.Prelude lib.CheckLib model.Keys.
From Coq Require Import NArith.
Open Scope N_scope.

Inductive key_case :=
| KCEnt (k : ent_key) (obs : list N)
| KCWrk (k : reg_key) (obs : list N)
| KCBcn (k : reg_key) (obs : list N)
| KCStr (k : str_key) (obs : list N)
| KCPrefix (model : list N) (obs : list N)
| KCStrParse (r s : list N) (obs : option (list N * list N))   (* AddressesFromStreamKey(GetStreamKey(r,s)); None = panic *)
| KCStrFirst (r s : list N) (obs : option (list N)).           (* the by-receiver query's sender extraction *)

Definition pair_eqb (a b : list N * list N) : bool := key_eqb (fst a) (fst b) && key_eqb (snd a) (snd b).

Definition keys_corr_ok (c : key_case) : bool :=
  match c with
  | KCEnt k obs => key_eqb (ent_encode k) obs
  | KCWrk k obs => key_eqb (wrk_encode k) obs
  | KCBcn k obs => key_eqb (bcn_encode k) obs
  | KCStr k obs => key_eqb (str_encode k) obs
  | KCPrefix m obs => key_eqb m obs
  | KCStrParse r s obs => opt_eqb pair_eqb (addresses_from_stream_key (str_encode (SkStream r s))) obs
  | KCStrFirst r s obs => opt_eqb key_eqb (receiver_query_sender r (str_encode (SkStream r s))) obs
  end.

Definition ent_key_eqb (a b : ent_key) : bool :=
  match a, b with
  | EkHighestPO, EkHighestPO | EkParams, EkParams | EkTotalSpent, EkTotalSpent | EkTotalLocked, EkTotalLocked => true
  | EkPO x, EkPO y | EkRaised x, EkRaised y | EkAccepted x, EkAccepted y => x =? y
  | EkLocked x, EkLocked y | EkWhitelist x, EkWhitelist y | EkSpent x, EkSpent y => key_eqb x y
  | _, _ => false
  end.
Definition reg_key_eqb (a b : reg_key) : bool :=
  match a, b with
  | RkHighestId, RkHighestId | RkParams, RkParams => true
  | RkReg x, RkReg y | RkLimit x, RkLimit y => x =? y
  | RkRecord i h, RkRecord j g => (i =? j) && (h =? g)
  | _, _ => false
  end.
Definition str_key_eqb (a b : str_key) : bool :=
  match a, b with
  | SkParams, SkParams => true
  | SkStream r s, SkStream r' s' => key_eqb r r' && key_eqb s s'
  | _, _ => false
  end.

(* numeric order expected between two keys of the same id-keyed section (None: no claim) *)
Definition ent_order (a b : ent_key) : option bool :=
  match a, b with
  | EkPO x, EkPO y | EkRaised x, EkRaised y | EkAccepted x, EkAccepted y => Some (x <? y)
  | _, _ => None
  end.
Definition reg_order (a b : reg_key) : option bool :=
  match a, b with
  | RkReg x, RkReg y | RkLimit x, RkLimit y => Some (x <? y)
  | RkRecord i h, RkRecord j g => Some ((i <? j) || ((i =? j) && (h <? g)))
  | _, _ => None
  end.

Definition order_ok (o : option bool) (x y : list N) : bool :=
  match o with None => true | Some b => Bool.eqb (lex_lt x y) b end.

(* the property on the implementation's own bytes: same store => (same logical key <-> same bytes),
   byte order = numeric order; parsers return what the key was built from *)
Definition keys_pair_ok (a b : key_case) : bool :=
  match a, b with
  | KCEnt k1 o1, KCEnt k2 o2 => Bool.eqb (ent_key_eqb k1 k2) (key_eqb o1 o2) && order_ok (ent_order k1 k2) o1 o2 && order_ok (ent_order k2 k1) o2 o1
  | KCWrk k1 o1, KCWrk k2 o2 | KCBcn k1 o1, KCBcn k2 o2 =>
      Bool.eqb (reg_key_eqb k1 k2) (key_eqb o1 o2) && order_ok (reg_order k1 k2) o1 o2 && order_ok (reg_order k2 k1) o2 o1
  | KCStr k1 o1, KCStr k2 o2 => Bool.eqb (str_key_eqb k1 k2) (key_eqb o1 o2)
  | _, _ => true
  end.

Definition keys_single_ok (c : key_case) : bool :=
  match c with
  | KCStrParse r s obs => opt_eqb pair_eqb (Some (r, s)) obs
  | KCStrFirst r s obs => opt_eqb key_eqb (Some s) obs
  | _ => true
  end.

Definition keys_bad_corr (l : list key_case) : list nat := bad_indices keys_corr_ok 0 l.
Definition keys_bad_mon (l : list key_case) : list nat :=
  bad_indices keys_single_ok 0 l ++ bad_pair_indices keys_pair_ok 0 l.
