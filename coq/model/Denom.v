(* Model of types/denom.go ConvertUndDenomination (after fix D10: big.Rat arithmetic).
   Strings are Coq strings; decimal printing/parsing is the standard library's
   (Decimal / DecimalString), which coincides with Go's big.Int.String / nat.utoa(10)
   on naturals.  Inputs outside  digits* [ "." digits* ]  (signs, exponents, "a/b")
   are outside the modelled domain: [parse_amount] answers None for them. *)
From MC Require Import lib.Prelude.
From Coq Require Import DecimalString DecimalN DecimalFacts NArith.
Open Scope string_scope.
Open Scope N_scope.

(* split at the first '.'; None if there is a second one *)
Fixpoint has_dot (s : string) : bool :=
  match s with EmptyString => false | String c r => if Ascii.eqb c "."%char then true else has_dot r end.

Fixpoint split_dot (s : string) : string * option string :=
  match s with
  | EmptyString => (EmptyString, None)
  | String c r =>
      if Ascii.eqb c "."%char then (EmptyString, Some r)
      else let '(a, b) := split_dot r in (String c a, b)
  end.

Definition pow10 (k : nat) : N := 10 ^ N.of_nat k.

Record amount := { am_int : Decimal.uint; am_frac : Decimal.uint }.

(* what big.Rat.SetString accepts within the modelled domain *)
Definition parse_amount (s : string) : option amount :=
  let '(a, ob) := split_dot s in
  match NilEmpty.uint_of_string a with
  | None => None
  | Some ip =>
      match ob with
      | None => match ip with Decimal.Nil => None | _ => Some {| am_int := ip; am_frac := Decimal.Nil |} end
      | Some b =>
          if has_dot b then None else
          match NilEmpty.uint_of_string b with
          | None => None
          | Some fp =>
              match ip, fp with
              | Decimal.Nil, Decimal.Nil => None
              | _, _ => Some {| am_int := ip; am_frac := fp |}
              end
          end
      end
  end.

Definition frac_len (a : amount) : nat := Decimal.nb_digits (am_frac a).

(* the rational the amount denotes is rat_num / rat_den *)
Definition rat_num (a : amount) : N := N.of_uint (am_int a) * pow10 (frac_len a) + N.of_uint (am_frac a).
Definition rat_den (a : amount) : N := pow10 (frac_len a).

Definition nund_per_fund : N := 1000000000.

(* case FundDenom:  res = x * 10^9 ; result = Quo(res.Num, res.Denom) *)
Definition to_nund (a : amount) : N := (rat_num a * nund_per_fund) / rat_den a.

(* case NundDenom:  res = x / 10^9 ; res.FloatString(9)  — returns (integer part, 9-digit fraction) *)
Definition float_string9 (num den : N) : N * N :=
  let q := num / den in
  let r := num mod den in
  let p := nund_per_fund in       (* 10^prec, prec = 9 *)
  let r1 := (r * p) / den in
  let r2 := (r * p) mod den in
  if den <=? 2 * r2 then
    let r1' := r1 + 1 in
    if p <=? r1' then (q + 1, r1' - p) else (q, r1')
  else (q, r1).

Definition to_fund (a : amount) : N * N := float_string9 (rat_num a) (rat_den a * nund_per_fund).

Definition print_N (n : N) : string := NilZero.string_of_uint (N.to_uint n).

Fixpoint zeros (k : nat) : string := match k with O => EmptyString | S k' => String "0"%char (zeros k') end.

Definition pad9 (n : N) : string :=
  let s := print_N n in (zeros (9 - String.length s) ++ s)%string.

Definition print_fund (qr : N * N) : string := (print_N (fst qr) ++ "." ++ pad9 (snd qr))%string.

Inductive denom := Fund | Nund.

(* ConvertUndDenomination amount from to, for from <> to; None = error / outside domain *)
Definition convert (s : string) (from : denom) : option string :=
  match parse_amount s with
  | None => None
  | Some a =>
      match from with
      | Fund => Some (print_N (to_nund a) ++ "nund")%string
      | Nund => Some (print_fund (to_fund a) ++ "fund")%string
      end
  end.

(* the numeric part of an output (strip the 4-letter denomination suffix) *)
Definition convert_num (s : string) (from : denom) : option string :=
  match parse_amount s with
  | None => None
  | Some a =>
      match from with
      | Fund => Some (print_N (to_nund a))
      | Nund => Some (print_fund (to_fund a))
      end
  end.
