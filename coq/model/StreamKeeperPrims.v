(* The primitives the translated x/stream keeper code (GeneratedStreamKeeper.v) is written against, described by
   hand over the state types of the model (model/Bank.v, model/Stream.v).  This file is part of the trusted
   description of the environment of the translated code:
     - the store accessors of ONE stream (GetStream / IsStream / SetStream / DeleteStream of keeper/stream.go: a
       KV-store entry under types.GetStreamKey(receiver, sender), protobuf-encoded) are a map keyed by the pair
       (C18 proves the key encoding injective; MustMarshal's panic on an unrepresentable time is kept);
     - GetParams / SetParams (SetParams validates, as keeper/params.go does);
     - x/bank's three module transfers over sdk.Coins built by sdk.NewCoins from one coin;
     - bech32 decoding of an address string is the identity on abstract addresses;
     - events and telemetry do not exist.
   The world also carries the block time (ctx.BlockTime()). *)
From MC Require Import lib.Prelude lib.AMap lib.GoSdk GeneratedStreamTypes model.Bank model.Stream.

Record kworld := mk_kworld { kw_now : Z; kw_bank : bank; kw_str : str_state }.

Definition with_bank (w : kworld) (b : bank) : kworld := mk_kworld (kw_now w) b (kw_str w).
Definition with_str (w : kworld) (s : str_state) : kworld := mk_kworld (kw_now w) (kw_bank w) s.

(* module names resolve to module accounts (app.go wiring: the stream keeper is built with
   authtypes.FeeCollectorName; Generated.v carries the fact) *)
Definition MOD_stream : addr := STREAM_MACC.
Definition MOD_fee_collector : addr := FEE_COLLECTOR.
Definition KEEPER_authority : addr := GOV_MACC.

(* error codes: every x/stream error is one class for the comparison with the chain (model/Stream.v) *)
Definition stream_ErrInvalidData : Z := ERR_INVALID_DATA.
Definition stream_ErrStreamDoesNotExist : Z := ERR_INVALID_DATA.
Definition stream_ErrStreamExists : Z := ERR_INVALID_DATA.
Definition stream_ErrStreamNotCancellable : Z := ERR_INVALID_DATA.
Definition sdkerrors_ErrUnauthorized : Z := ERR_UNAUTHORIZED.
Definition sdkerrors_ErrInvalidAddress : Z := 7.
Definition govtypes_ErrInvalidSigner : Z := 42.  (* x/gov ErrInvalidSigner; = ERR_GOV_AUTH of model/App.v *)

(* conversion between the protobuf struct and the model's record *)
Definition to_go_stream (st : stream) : go_Stream :=
  mk_go_Stream (st_denom st, st_deposit st) (st_rate st) (st_lot st) (st_dzt st) (st_cancellable st).
Definition of_go_stream (g : go_Stream) : stream :=
  {| st_denom := fst (Stream_Deposit g); st_deposit := snd (Stream_Deposit g); st_rate := Stream_FlowRate g;
     st_lot := Stream_LastOutflowTime g; st_dzt := Stream_DepositZeroTime g; st_cancellable := Stream_Cancellable g |}.

(* ---- store access ---- *)
Definition str_GetStream (w : kworld) (r sn : addr) : go_Stream * bool :=
  match aget (r, sn) (s_streams (kw_str w)) with
  | Some st => (to_go_stream st, true)
  | None => (zero_go_Stream, false)
  end.
Definition str_IsStream (w : kworld) (r sn : addr) : bool := ahas (r, sn) (s_streams (kw_str w)).
Definition str_SetStream (w : kworld) (r sn : addr) (g : go_Stream) : outcome (kworld * unit) :=
  do s' <- set_stream (kw_str w) r sn (of_go_stream g); Ok (with_str w s', tt).
Definition str_DeleteStream (w : kworld) (r sn : addr) : outcome (kworld * unit) :=
  Ok (with_str w (with_streams (kw_str w) (adel (r, sn) (s_streams (kw_str w)))), tt).

Definition str_GetParams (w : kworld) : go_Params := mk_go_Params (s_valfee (kw_str w)).
Definition str_SetParams (w : kworld) (p : go_Params) : outcome (kworld * unit) :=
  if str_params_valid (Params_ValidatorFee p)
  then Ok (with_str w {| s_valfee := Params_ValidatorFee p; s_streams := s_streams (kw_str w) |}, tt)
  else Err 40.     (* Params.Validate failed; = ERR_APP of model/App.v *)

(* ---- x/bank ---- *)
Fixpoint send_all (b : bank) (from to : addr) (cs : list go_coin) : outcome bank :=
  match cs with
  | [] => Ok b
  | c :: r => do b1 <- bank_send b from to (fst c) (snd c); send_all b1 from to r
  end.
Definition bank_SendCoinsFromModuleToModule (w : kworld) (from to : addr) (cs : list go_coin) : outcome (kworld * unit) :=
  do b <- send_all (kw_bank w) from to cs; Ok (with_bank w b, tt).
Definition bank_SendCoinsFromAccountToModule (w : kworld) (from to : addr) (cs : list go_coin) : outcome (kworld * unit) :=
  do b <- send_all (kw_bank w) from to cs; Ok (with_bank w b, tt).
Definition bank_SendCoinsFromModuleToAccount (w : kworld) (from to : addr) (cs : list go_coin) : outcome (kworld * unit) :=
  if blocked to then Err ERR_UNAUTHORIZED
  else do b <- send_all (kw_bank w) from to cs; Ok (with_bank w b, tt).
Definition bank_BlockedAddr (a : addr) : bool := blocked a.

(* ---- addresses ---- *)
Definition sdk_AccAddressFromBech32 (s : addr) : outcome addr := Ok s.

Definition stream_ErrInvalidParams : Z := 40.     (* fmt.Errorf / errors.New in Params.Validate *)

(* ---- genesis (keeper/genesis.go) ---- *)
Definition stream_PANIC : Z := 21.
(* the module account exists from InitChain on (maccPerms in app.go; a translator fact) *)
Definition str_GetStreamModuleAccount (w : kworld) : go_modacc := Some STREAM_MACC.
(* GetAllBalances: the positive balances of the account, in store order *)
Definition bank_GetAllBalances (w : kworld) (a : addr) : list go_coin :=
  map (fun kv => (snd (fst kv), snd kv)) (filter (fun kv => (fst (fst kv) =? a) && (0 <? snd kv)) (bal (kw_bank w))).
Definition acc_SetModuleAccount (w : kworld) (m : go_modacc) : outcome (kworld * unit) := Ok (w, tt).

(* ---- genesis export (keeper/genesis.go ExportGenesis through IterateAllStreams) ---- *)
(* what IterateAllStreams visits, in order: every stored stream with the (receiver, sender) parsed from its key
   (C18: the parse gives back exactly the pair the key was built from); the model keeps the streams in that order *)
Definition str_AllStreams (w : kworld) : list go_StreamExport :=
  map (fun kv => mk_go_StreamExport (fst (fst kv)) (snd (fst kv)) (to_go_stream (snd kv))) (s_streams (kw_str w)).
