(* The world the translated x/wrkchain and x/beacon keeper code (GeneratedWrkchainKeeper.v, GeneratedBeaconKeeper.v)
   runs in, and the primitives common to both modules, described by hand over the registry model's state
   (model/Registry.v).  Trusted description of the environment of the translated code:
     - the store accessors of one entity / one storage limit / one record, the highest-id counter and the parameters
       are maps and fields of [reg_state] (C18 proves the key encodings injective);
     - GetLast*HeightInState is the lowest record key left in the store for that id (C18: byte order = numeric order);
     - IsAuthorisedToRecord compares the given address with the stored owner (false for an unknown id);
     - bech32 decoding / encoding is the identity on abstract addresses;
     - [rw_wall] is the node's wall clock (time.Now()), NOT part of the chain state;
     - events and telemetry do not exist. *)
From MC Require Import lib.Prelude lib.AMap lib.GoSdk model.Bank model.Registry.

Record rworld := mk_rworld { rw_now : Z; rw_wall : Z; rw_reg : reg_state }.
Definition with_reg (w : rworld) (s : reg_state) : rworld := mk_rworld (rw_now w) (rw_wall w) s.

Definition KEEPER_authority : addr := GOV_MACC.
Definition govtypes_ErrInvalidSigner : Z := 42.   (* = ERR_GOV_AUTH of model/App.v *)
Definition sdkerrors_ErrInvalidAddress : Z := 7.

Definition reg_IsRegistered (w : rworld) (id : Z) : bool := ahas id (r_regs (rw_reg w)).
(* the genesis always stores the counter; its absence is an error the model does not reach *)
Definition reg_GetHighestID (w : rworld) : outcome Z := Ok (r_next (rw_reg w)).
Definition reg_SetHighestID (w : rworld) (v : Z) : outcome (rworld * unit) :=
  let s := rw_reg w in
  Ok (with_reg w {| r_params := r_params s; r_next := v; r_regs := r_regs s; r_limits := r_limits s; r_recs := r_recs s |}, tt).
Definition reg_IsAuthorisedToRecord (w : rworld) (id : Z) (a : addr) : bool :=
  match aget id (r_regs (rw_reg w)) with Some rg => a =? rg_owner rg | None => false end.
Definition reg_GetParamMaxStorageLimit (w : rworld) : Z := rp_max_limit (r_params (rw_reg w)).
Definition reg_GetParamDefaultStorageLimit (w : rworld) : Z := rp_default_limit (r_params (rw_reg w)).
Definition reg_SetStorageLimit (w : rworld) (id l : Z) : outcome (rworld * unit) :=
  let s := rw_reg w in Ok (with_reg w (with_regs s (r_regs s) (aset id l (r_limits s)) (r_recs s)), tt).
Definition reg_DeleteRecord (w : rworld) (id key : Z) : outcome (rworld * unit) :=
  let s := rw_reg w in Ok (with_reg w (with_regs s (r_regs s) (r_limits s) (adel (id, key) (r_recs s))), tt).
Definition reg_LowestKeyInState (w : rworld) (id : Z) : Z := lowest_key id (r_recs (rw_reg w)).
Definition reg_put_record (w : rworld) (id : Z) (rc : record) : outcome (rworld * unit) :=
  let s := rw_reg w in Ok (with_reg w (with_regs s (r_regs s) (r_limits s) (aset (id, rc_key rc) rc (r_recs s))), tt).
Definition reg_put_entity (w : rworld) (rg : registration) : outcome (rworld * unit) :=
  let s := rw_reg w in Ok (with_reg w (with_regs s (aset (rg_id rg) rg (r_regs s)) (r_limits s) (r_recs s)), tt).
Definition reg_store_params (w : rworld) (p : reg_params) : outcome (rworld * unit) :=
  let s := rw_reg w in
  if reg_params_valid p
  then Ok (with_reg w {| r_params := p; r_next := r_next s; r_regs := r_regs s; r_limits := r_limits s; r_recs := r_recs s |}, tt)
  else Err 40.     (* Params.Validate failed; = ERR_APP of model/App.v *)

Definition sdk_AccAddressFromBech32 (s : addr) : outcome addr := Ok s.

(* ---- the fee getters the ante decorators use (keeper/params.go): sdk.NewInt64Coin(denom, int64(fee)) ---- *)
Definition reg_GetParamDenom (w : rworld) : denom := rp_denom (r_params (rw_reg w)).
Definition reg_GetZeroFeeAsCoin (w : rworld) : outcome go_coin := sdk_NewCoin (reg_GetParamDenom w) 0.
Definition reg_GetRegistrationFeeAsCoin (w : rworld) : outcome go_coin :=
  sdk_NewCoin (reg_GetParamDenom w) (go_int64_of_uint64 (rp_fee_register (r_params (rw_reg w)))).
Definition reg_GetRecordFeeAsCoin (w : rworld) : outcome go_coin :=
  sdk_NewCoin (reg_GetParamDenom w) (go_int64_of_uint64 (rp_fee_record (r_params (rw_reg w)))).
Definition reg_GetPurchaseStorageFeeAsCoin (w : rworld) : outcome go_coin :=
  sdk_NewCoin (reg_GetParamDenom w) (go_int64_of_uint64 (rp_fee_purchase (r_params (rw_reg w)))).
(* the decorators' own errors (= ERR_FEE_* of model/App.v) *)
Definition exported_ErrIncorrectFeeDenomination : Z := 50.
Definition exported_ErrInsufficientWrkChainFee : Z := 51.
Definition exported_ErrTooMuchWrkChainFee : Z := 52.
Definition exported_ErrInsufficientBeaconFee : Z := 51.
Definition exported_ErrTooMuchBeaconFee : Z := 52.
