(* The world of the SECOND rendering of the x/beacon keeper and message server (GeneratedBeaconKeeperOnStore.v): the
   same Go code as GeneratedBeaconKeeper.v, but its store primitives are the GENERATED store accessors
   (GeneratedBeaconStore.v) over the byte-keyed store (model/KVStore.v).  Adapters only:
     os_reg_X = the go_st_ accessor the Go code calls under that name.
   One adapter is not a bare accessor: IsAuthorisedToRecord (record.go: recorder.Equals(k.GetBeaconOwner(ctx, id)),
   GetBeaconOwner = the Owner of GetBeacon decoded from bech32, the empty address when the BEACON is unknown) is
   written out here over go_st_GetBeacon, with bech32 decoding the identity on abstract addresses as everywhere in
   the keeper-level model (trusted, as in model/RegistryWorld.v).
   proofs/GeneratedBeaconOnStoreEq.v proves that this rendering simulates the one over the primitives. *)
From Coq Require Import NArith.
From MC Require Import lib.Prelude lib.AMap lib.GoSdk GeneratedBeaconTypes model.Bank model.Registry model.Keys model.KVStore
  model.StoreCodecPrims GeneratedBeaconStore.
From MC Require Export model.BeaconKeeperPrims.

Record bsworld := mk_bsworld { bsw_now : Z; bsw_wall : Z; bsw_store : okv beacon_val }.
Definition with_bstore (w : bsworld) (s : okv beacon_val) : bsworld := mk_bsworld (bsw_now w) (bsw_wall w) s.
Definition os_rw_now (w : bsworld) : Z := bsw_now w.
Definition os_rw_wall (w : bsworld) : Z := bsw_wall w.

Definition lift_w (w : bsworld) (o : outcome (okv beacon_val * unit)) : outcome (bsworld * unit) :=
  do x <- o; Ok (with_bstore w (fst x), tt).

Definition os_reg_GetEntity (w : bsworld) (id : Z) := go_st_GetBeacon (bsw_store w) id.
Definition os_reg_SetEntity (w : bsworld) (g : go_Beacon) := lift_w w (go_st_SetBeacon (bsw_store w) g).
Definition os_reg_IsRegistered (w : bsworld) (id : Z) := go_st_IsBeaconRegistered (bsw_store w) id.
Definition os_reg_GetHighestID (w : bsworld) := go_st_GetHighestBeaconID (bsw_store w).
Definition os_reg_SetHighestID (w : bsworld) (v : Z) := lift_w w (go_st_SetHighestBeaconID (bsw_store w) v).
Definition os_reg_GetStorageLimit (w : bsworld) (id : Z) := go_st_GetBeaconStorageLimit (bsw_store w) id.
Definition os_reg_SetStorageLimit (w : bsworld) (id l : Z) := lift_w w (go_st_SetBeaconStorageLimit (bsw_store w) id l).
Definition os_reg_IsAuthorisedToRecord (w : bsworld) (id : Z) (a : addr) : outcome bool :=
  do x <- go_st_GetBeacon (bsw_store w) id;
  Ok (if snd x then a =? Beacon_Owner (fst x) else false).
Definition os_reg_GetParamMaxStorageLimit (w : bsworld) := go_st_GetParamMaxStorageLimit (bsw_store w).
Definition os_reg_GetParamDefaultStorageLimit (w : bsworld) := go_st_GetParamDefaultStorageLimit (bsw_store w).
Definition os_reg_SetParams (w : bsworld) (p : go_Params) := lift_w w (go_st_SetParams (bsw_store w) p).
Definition os_reg_GetParams (w : bsworld) := go_st_GetParams (bsw_store w).
Definition os_reg_SetRecord (w : bsworld) (id : Z) (b : go_BeaconTimestamp) := lift_w w (go_st_SetBeaconTimestamp (bsw_store w) id b).
Definition os_reg_DeleteRecord (w : bsworld) (id h : Z) := lift_w w (go_st_deleteBeaconTimestamp (bsw_store w) id h).
Definition os_reg_GetRecord (w : bsworld) (id h : Z) := go_st_GetBeaconTimestampByID (bsw_store w) id h.
(* genesis export (genesis.go): the listings *)
Definition os_reg_GetAllEntities (w : bsworld) := go_st_GetAllBeacons (bsw_store w).
Definition os_reg_GetRecordsForExport (w : bsworld) (id : Z) := go_st_GetAllBeaconTimestampsForExport (bsw_store w) id.
