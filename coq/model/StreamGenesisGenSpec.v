(* Vocabulary for the theorems that tie the GENERATED x/stream InitGenesis (GeneratedStreamKeeper.v) to the model of genesis
   import (model/Genesis.v: import_str).  Definitions only.  (ExportGenesis of x/stream is translated too: proofs/GeneratedStreamExportEq.v, props/C15generatedstr2.v.) *)
From MC Require Import lib.Prelude lib.AMap lib.GoSdk GeneratedFns GeneratedStreamTypes model.Bank model.Stream model.Genesis
  model.StreamKeeperPrims GeneratedStreamKeeper.

Definition gen_str_of_go (g : go_GenesisState) : gen_str :=
  {| gs_valfee := Params_ValidatorFee (GenesisState_Params g);
     gs_streams := map (fun e => ((StreamExport_Receiver e, StreamExport_Sender e), of_go_stream (StreamExport_Stream e)))
                       (GenesisState_Streams g) |}.

Definition fresh_kworld (now : Z) (b : bank) (vf0 : Z) : kworld :=
  mk_kworld now b {| s_valfee := vf0; s_streams := [] |}.
