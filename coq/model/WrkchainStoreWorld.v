(* The world of the SECOND rendering of the x/wrkchain keeper and message server (GeneratedWrkchainKeeperOnStore.v): the
   same Go code as GeneratedWrkchainKeeper.v, but its store primitives are the GENERATED store accessors
   (GeneratedWrkchainStore.v) over the byte-keyed store (model/KVStore.v).  Adapters only:
     os_reg_X = the go_st_ accessor the Go code calls under that name.
   One adapter is not a bare accessor: IsAuthorisedToRecord (record.go: recorder.Equals(k.GetWrkChainOwner(ctx, id)),
   GetWrkChainOwner = the Owner of GetWrkChain decoded from bech32, the empty address when the WRKChain is unknown) is
   written out here over go_st_GetWrkChain, with bech32 decoding the identity on abstract addresses as everywhere in
   the keeper-level model (trusted, as in model/RegistryWorld.v).
   proofs/GeneratedWrkchainOnStoreEq.v proves that this rendering simulates the one over the primitives. *)
From Coq Require Import NArith.
From MC Require Import lib.Prelude lib.AMap lib.GoSdk GeneratedWrkchainTypes model.Bank model.Registry model.Keys model.KVStore
  model.StoreCodecPrims GeneratedWrkchainStore.
From MC Require Export model.WrkchainKeeperPrims.

Record wsworld := mk_wsworld { wsw_now : Z; wsw_wall : Z; wsw_store : okv wrkchain_val }.
Definition with_wstore (w : wsworld) (s : okv wrkchain_val) : wsworld := mk_wsworld (wsw_now w) (wsw_wall w) s.
Definition os_rw_now (w : wsworld) : Z := wsw_now w.
Definition os_rw_wall (w : wsworld) : Z := wsw_wall w.

Definition lift_w (w : wsworld) (o : outcome (okv wrkchain_val * unit)) : outcome (wsworld * unit) :=
  do x <- o; Ok (with_wstore w (fst x), tt).

Definition os_reg_GetEntity (w : wsworld) (id : Z) := go_st_GetWrkChain (wsw_store w) id.
Definition os_reg_SetEntity (w : wsworld) (g : go_WrkChain) := lift_w w (go_st_SetWrkChain (wsw_store w) g).
Definition os_reg_IsRegistered (w : wsworld) (id : Z) := go_st_IsWrkChainRegistered (wsw_store w) id.
Definition os_reg_GetHighestID (w : wsworld) := go_st_GetHighestWrkChainID (wsw_store w).
Definition os_reg_SetHighestID (w : wsworld) (v : Z) := lift_w w (go_st_SetHighestWrkChainID (wsw_store w) v).
Definition os_reg_GetStorageLimit (w : wsworld) (id : Z) := go_st_GetWrkChainStorageLimit (wsw_store w) id.
Definition os_reg_SetStorageLimit (w : wsworld) (id l : Z) := lift_w w (go_st_SetWrkChainStorageLimit (wsw_store w) id l).
Definition os_reg_IsAuthorisedToRecord (w : wsworld) (id : Z) (a : addr) : outcome bool :=
  do x <- go_st_GetWrkChain (wsw_store w) id;
  Ok (if snd x then a =? WrkChain_Owner (fst x) else false).
Definition os_reg_GetParamMaxStorageLimit (w : wsworld) := go_st_GetParamMaxStorageLimit (wsw_store w).
Definition os_reg_GetParamDefaultStorageLimit (w : wsworld) := go_st_GetParamDefaultStorageLimit (wsw_store w).
Definition os_reg_SetParams (w : wsworld) (p : go_Params) := lift_w w (go_st_SetParams (wsw_store w) p).
Definition os_reg_GetParams (w : wsworld) := go_st_GetParams (wsw_store w).
Definition os_reg_SetRecord (w : wsworld) (id : Z) (b : go_WrkChainBlock) := lift_w w (go_st_SetWrkChainBlock (wsw_store w) id b).
Definition os_reg_DeleteRecord (w : wsworld) (id h : Z) := lift_w w (go_st_deleteWrkChainHash (wsw_store w) id h).
Definition os_reg_LowestKeyInState (w : wsworld) (id : Z) := go_st_GetLastWrkChainHeightInState (wsw_store w) id.
Definition os_reg_GetRecord (w : wsworld) (id h : Z) := go_st_GetWrkChainBlock (wsw_store w) id h.
(* genesis export (genesis.go): the listings *)
Definition os_reg_GetAllEntities (w : wsworld) := go_st_GetAllWrkChains (wsw_store w).
Definition os_reg_GetRecordsForExport (w : wsworld) (id : Z) := go_st_GetAllWrkChainBlockHashesForGenesisExport (wsw_store w) id.
