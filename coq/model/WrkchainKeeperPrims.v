(* Primitives of the translated x/wrkchain keeper code that mention the module's protobuf records (see
   model/RegistryWorld.v for the rest and for what is trusted). *)
From MC Require Import lib.Prelude lib.AMap lib.GoSdk GeneratedWrkchainTypes model.Bank model.Registry.
From MC Require Import model.Genesis.
From MC Require Export model.RegistryWorld.

Definition wrkchain_ErrContentTooLarge : Z := ERR_REG.
Definition wrkchain_ErrMissingData : Z := ERR_REG.
Definition wrkchain_ErrInvalidData : Z := ERR_REG.
Definition wrkchain_ErrWrkChainDoesNotExist : Z := ERR_REG_UNKNOWN.
Definition wrkchain_ErrNotWrkChainOwner : Z := ERR_REG_NOT_OWNER.
Definition wrkchain_ErrNewHeightMustBeHigher : Z := ERR_REG_HEIGHT.
Definition wrkchain_ErrExceedsMaxStorage : Z := ERR_REG_MAX.

Definition to_go_entity (rg : registration) : go_WrkChain :=
  {| WrkChain_WrkchainId := rg_id rg; WrkChain_Moniker := rg_moniker rg; WrkChain_Name := rg_name rg;
     WrkChain_Genesis := rg_genesis rg; WrkChain_Type := rg_type rg; WrkChain_Lastblock := rg_last rg;
     WrkChain_NumBlocks := rg_num rg; WrkChain_LowestHeight := rg_lowest rg; WrkChain_RegTime := rg_regtime rg;
     WrkChain_Owner := rg_owner rg |}.
Definition of_go_entity (g : go_WrkChain) : registration :=
  {| rg_id := WrkChain_WrkchainId g; rg_owner := WrkChain_Owner g; rg_moniker := WrkChain_Moniker g; rg_name := WrkChain_Name g;
     rg_genesis := WrkChain_Genesis g; rg_type := WrkChain_Type g; rg_last := WrkChain_Lastblock g;
     rg_num := WrkChain_NumBlocks g; rg_lowest := WrkChain_LowestHeight g; rg_regtime := WrkChain_RegTime g |}.

Definition reg_GetEntity (w : rworld) (id : Z) : go_WrkChain * bool :=
  match aget id (r_regs (rw_reg w)) with
  | Some rg => (to_go_entity rg, true)
  | None => (zero_go_WrkChain, false)
  end.
Definition reg_SetEntity (w : rworld) (g : go_WrkChain) : outcome (rworld * unit) := reg_put_entity w (of_go_entity g).
Definition reg_GetStorageLimit (w : rworld) (id : Z) : go_WrkChainStorageLimit * bool :=
  match aget id (r_limits (rw_reg w)) with
  | Some l => (mk_go_WrkChainStorageLimit id l, true)
  | None => (mk_go_WrkChainStorageLimit id MODULE_DEFAULT_LIMIT, false)
  end.
Definition reg_SetRecord (w : rworld) (id : Z) (b : go_WrkChainBlock) : outcome (rworld * unit) :=
  reg_put_record w id {| rc_key := WrkChainBlock_Height b;
                         rc_hashes := [WrkChainBlock_Blockhash b; WrkChainBlock_Parenthash b; WrkChainBlock_Hash1 b;
                                       WrkChainBlock_Hash2 b; WrkChainBlock_Hash3 b];
                         rc_time := WrkChainBlock_SubTime b |}.
(* GetWrkChainBlock: the stored record under (id, height), or the zero struct and false *)
Definition reg_GetRecord (w : rworld) (id height : Z) : go_WrkChainBlock * bool :=
  match aget (id, height) (r_recs (rw_reg w)) with
  | Some rc => (mk_go_WrkChainBlock (rc_key rc) (nth 0 (rc_hashes rc) EmptyString) (nth 1 (rc_hashes rc) EmptyString)
                  (nth 2 (rc_hashes rc) EmptyString) (nth 3 (rc_hashes rc) EmptyString) (nth 4 (rc_hashes rc) EmptyString) (rc_time rc), true)
  | None => (zero_go_WrkChainBlock, false)
  end.
Definition params_of_go (p : go_Params) : reg_params :=
  {| rp_fee_register := Params_FeeRegister p; rp_fee_record := Params_FeeRecord p; rp_fee_purchase := Params_FeePurchaseStorage p;
     rp_denom := Params_Denom p; rp_default_limit := Params_DefaultStorageLimit p; rp_max_limit := Params_MaxStorageLimit p |}.
Definition reg_SetParams (w : rworld) (p : go_Params) : outcome (rworld * unit) := reg_store_params w (params_of_go p).

(* ---- genesis (x/wrkchain/genesis.go) ---- *)
Definition wrkchain_PANIC : Z := 21.      (* panic(err) in InitGenesis *)
Definition params_to_go (p : reg_params) : go_Params :=
  {| Params_FeeRegister := rp_fee_register p; Params_FeeRecord := rp_fee_record p; Params_FeePurchaseStorage := rp_fee_purchase p;
     Params_Denom := rp_denom p; Params_DefaultStorageLimit := rp_default_limit p; Params_MaxStorageLimit := rp_max_limit p |}.
Definition reg_GetParams (w : rworld) : go_Params := params_to_go (r_params (rw_reg w)).
(* GetAllWrkChains: the registrations in store order (ascending id) *)
Definition reg_GetAllEntities (w : rworld) : list go_WrkChain := map (fun kv => to_go_entity (snd kv)) (r_regs (rw_reg w)).
Definition hash_n (n : nat) (rc : record) : string := nth n (rc_hashes rc) EmptyString.
(* the records of one registration as exported: ascending key, at most the newest EXPORT_CAP of them *)
Definition reg_GetRecordsForExport (w : rworld) (id : Z) :=
  map (fun kr => mk_go_WrkChainBlockGenesisExport (fst kr) (hash_n 0 (snd kr)) (hash_n 1 (snd kr)) (hash_n 2 (snd kr)) (hash_n 3 (snd kr)) (hash_n 4 (snd kr)) (rc_time (snd kr)))
      (newest EXPORT_CAP (sort_by_key (records_of id (r_recs (rw_reg w))))).

Definition wrkchain_ErrInvalidParams : Z := 40.     (* fmt.Errorf / errors.New in Params.Validate *)
