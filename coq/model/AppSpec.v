(* Specification vocabulary for the application-level theorems (definitions only). *)
From MC Require Import lib.Prelude lib.AMap model.Bank model.Stream model.Registry model.Enterprise model.App.

(* the module state a message can change: everything except the bank *)
Definition module_state (a : app) := (a_ent a, a_wrk a, a_bcn a, a_str a, a_grants a, a_allow a).

(* ---- C13: who a message belongs to, evaluated in the state in which it is executed ---- *)
Definition owner_of (s : reg_state) (id : Z) (o : addr) : Prop :=
  exists rg, aget id (r_regs s) = Some rg /\ rg_owner rg = o.

Definition entitled (a : app) (m : msg) : Prop :=
      match m with
      | MEnt (ERaise p _ _) => mem_addr p (e_wl (a_ent a)) = true          (* the purchaser itself signs *)
      | MEnt (EDecide sg _ _) => is_signer (a_ent a) sg = true
      | MEnt (EWhitelist sg _ _) => is_signer (a_ent a) sg = true
      | MWrk (RRegister _ _ _ _ _) => True                                  (* anyone may register; becomes owner *)
      | MWrk (RRecord o id _ _) => owner_of (a_wrk a) id o
      | MWrk (RPurchase o id _) => owner_of (a_wrk a) id o
      | MBcn (RRegister _ _ _ _ _) => True
      | MBcn (RRecord o id _ _) => owner_of (a_bcn a) id o
      | MBcn (RPurchase o id _) => owner_of (a_bcn a) id o
      | MStr (SCreate _ _ _ _ _) => True                                    (* the sender funds its own stream *)
      | MStr (SClaim sn r) => ahas (r, sn) (s_streams (a_str a)) = true     (* signer r is that stream's receiver *)
      | MStr (STopUp sn r _ _) => ahas (r, sn) (s_streams (a_str a)) = true (* signer sn is that stream's sender *)
      | MStr (SUpdateFlow sn r _) => ahas (r, sn) (s_streams (a_str a)) = true
      | MStr (SCancel sn r) => ahas (r, sn) (s_streams (a_str a)) = true
      | MSend _ _ _ => True
      | MGrant _ _ _ => True
      | MFeeAllow _ _ => True
      | MExec grantee inner =>
          (* every inner message runs for its own signer: the grantee itself or someone who granted it *)
          Forall (fun i => msg_signer i = grantee \/ exists a0, has_grant a0 (msg_signer i) grantee (msg_type i) = true) inner
      | MUpdParams authority _ => authority = GOV_MACC
      end.

(* messages that do not touch the four modules' state at all *)
Definition is_param_update (m : msg) : bool := match m with MUpdParams _ _ => true | _ => false end.

(* ---- C06: the fee the module's decorator demands for the top-level messages of a tx ---- *)
Definition expected_fee (pick : msg -> option reg_msg) (rs : reg_state) (t : tx) : Z :=
  sumZ (map (reg_fee_of (r_params rs)) (own_msgs pick t)).

Definition has_wrk (t : tx) : bool := negb (Nat.eqb (List.length (own_msgs pick_wrk t)) 0).
Definition has_bcn (t : tx) : bool := negb (Nat.eqb (List.length (own_msgs pick_bcn t)) 0).

(* a registry message occurs somewhere inside a MsgExec of the tx *)
Fixpoint contains_registry (fuel : nat) (m : msg) : bool :=
  match fuel with
  | O => false
  | S f =>
      match m with
      | MWrk _ | MBcn _ => true
      | MExec _ inner => existsb (contains_registry f) inner
      | _ => false
      end
  end.
Definition nested_registry (t : tx) : bool :=
  existsb (fun m => match m with MExec _ inner => existsb (contains_registry (tx_fuel t)) inner | _ => false end) (tx_msgs t).

(* ---- C16: validity predicates, spelled as the property spells them ---- *)
Definition ent_params_ok (p : ent_params) : Prop :=
  0 <= ep_denom p /\ 1 <= ep_min_accepts p /\ 1 <= ep_time_limit p /\
  ep_signers p <> [] /\ (forall s, In s (ep_signers p) -> s <> BAD_ADDR /\ s <> EMPTY_ADDR) /\
  ep_min_accepts p <= Z.of_nat (List.length (ep_signers p)).

Definition reg_params_ok (p : reg_params) : Prop :=
  0 <= rp_denom p /\ 1 <= rp_fee_register p /\ 1 <= rp_fee_record p /\ 1 <= rp_fee_purchase p /\
  1 <= rp_default_limit p /\ 1 <= rp_max_limit p /\ rp_default_limit p <= rp_max_limit p.

Definition str_params_ok (v : Z) : Prop := 0 <= v <= DEC_ONE.

Definition params_ok (a : app) : Prop :=
  ent_params_ok (e_params (a_ent a)) /\ reg_params_ok (r_params (a_wrk a)) /\
  reg_params_ok (r_params (a_bcn a)) /\ str_params_ok (s_valfee (a_str a)).

(* ---- histories of the node ---- *)
Fixpoint node_run (n : node) (h : list op) : option node :=
  match h with
  | [] => Some n
  | o :: r => match node_step n o with Some (n', _) => node_run n' r | None => None end
  end.

Definition node_init (g : app) : node := {| n_committed := g; n_deliver := None; n_check := g |}.
