(* Correspondence check and monitor for the three pure stream functions (C11 / C12). *)
From MC Require Import lib.Prelude lib.CheckLib model.Stream.

Inductive fn_case :=
| FDuration (deposit rate : Z) (obs : option Z)                    (* None = the Go call panicked *)
| FClaim (now dzt lot deposit rate : Z) (obs : option (Z * Z))
| FFee (valfee claim : Z) (obs : option (Z * Z)).

Definition zz_eqb (a b : Z * Z) : bool := (fst a =? fst b) && (snd a =? snd b).

Definition fn_corr_ok (c : fn_case) : bool :=
  match c with
  | FDuration d r obs =>
      match calculate_duration d r, obs with
      | Ok q, Some o => q =? o
      | Panic _, None => true
      | _, _ => false
      end
  | FClaim now dzt lot d r obs => opt_eqb zz_eqb (Some (calculate_amount_to_claim now dzt lot d r)) obs
  | FFee vf cl obs => opt_eqb zz_eqb (Some (calculate_validator_fee vf cl)) obs
  end.

(* the laws of C11/C10/C12 evaluated on the implementation's answers, without the model's functions *)
Definition fn_mon_ok (c : fn_case) : bool :=
  match c with
  | FDuration d r obs =>
      if (1 <=? r) && (0 <=? d) then
        if d / r <? two63 then opt_eqb Z.eqb (Some (d / r)) obs else true     (* beyond int64: create is refused *)
      else true
  | FClaim now dzt lot d r obs =>
      if (lot <=? now) && (1 <=? r) && (0 <=? d) then
        if dzt <=? now then opt_eqb zz_eqb (Some (d, 0)) obs
        else let p := Z.min d (r * ((now - lot) / NS)) in opt_eqb zz_eqb (Some (p, d - p)) obs
      else true
  | FFee vf cl obs =>
      if (0 <=? vf) && (vf <=? DEC_ONE) && (0 <=? cl) then
        let fee := (cl * vf) / DEC_ONE in opt_eqb zz_eqb (Some (cl - fee, fee)) obs     (* never a panic: C12 *)
      else true
  end.

Definition fn_bad_corr (l : list fn_case) : list nat := bad_indices fn_corr_ok 0 l.
Definition fn_bad_mon (l : list fn_case) : list nat := bad_indices fn_mon_ok 0 l.
