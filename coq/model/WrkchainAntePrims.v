(* the primitives of the translated WRKChain fee decorator: model/AnteWorld.v with [aw_reg] = the WRKChain state *)
From MC Require Export model.AnteWorld.
