(* The world the translated eFUND book-keeping code of x/enterprise/keeper/locked.go (GeneratedEnterpriseKeeper.v) runs in,
   and its primitives, described by hand over the model's state (model/Bank.v, model/Enterprise.v).  Trusted:
     - the store accessors of one locked / spent entry and of the two totals are the maps / optional fields of
       [ent_state], with the Go accessors' defaults (absent = zero coin of the current denomination) and the one check
       SetLockedUndForAccount makes (negative amount -> error);
     - x/bank: MintCoins adds to the module account and the supply; Delegate / Undelegate between a base account and the
       module account move spendable coins (vesting accounts are not modelled); SendCoinsFromModuleToAccount refuses
       blocked recipients; SpendableCoins lists the positive balances;
     - logging and events do not exist. *)
From MC Require Import lib.Prelude lib.AMap lib.GoSdk GeneratedEnterpriseTypes model.Bank model.Enterprise.

Record eworld := mk_eworld { ew_now : Z; ew_bank : bank; ew_ent : ent_state }.   (* ew_now: block time, ns *)
Definition with_ebank (w : eworld) (b : bank) : eworld := mk_eworld (ew_now w) b (ew_ent w).
Definition with_ent (w : eworld) (s : ent_state) : eworld := mk_eworld (ew_now w) (ew_bank w) s.

Definition MOD_enterprise : addr := ENT_MACC.

Definition ent_GetParamDenom (w : eworld) : denom := ep_denom (e_params (ew_ent w)).

Definition ent_GetLockedUndForAccount (w : eworld) (a : addr) : go_LockedUnd := mk_go_LockedUnd a (locked_coin (ew_ent w) a).
Definition ent_SetLockedUndForAccount (w : eworld) (l : go_LockedUnd) : outcome (eworld * unit) :=
  let s := ew_ent w in
  if snd (LockedUnd_Amount l) <? 0 then Err ERR_ENT
  else Ok (with_ent w (with_books s (aset (LockedUnd_Owner l) (LockedUnd_Amount l) (e_locked s)) (e_spent s) (e_totlocked s) (e_totspent s)), tt).
Definition ent_GetTotalLockedUnd (w : eworld) : coin := total_locked (ew_ent w).
Definition ent_SetTotalLockedUnd (w : eworld) (c : coin) : outcome (eworld * unit) :=
  let s := ew_ent w in Ok (with_ent w (with_books s (e_locked s) (e_spent s) (Some c) (e_totspent s)), tt).

Definition ent_GetSpentEFUNDForAccount (w : eworld) (a : addr) : go_SpentEFUND := mk_go_SpentEFUND a (spent_coin (ew_ent w) a).
Definition ent_SetSpentEFUNDForAccount (w : eworld) (l : go_SpentEFUND) : outcome (eworld * unit) :=
  let s := ew_ent w in
  Ok (with_ent w (with_books s (e_locked s) (aset (SpentEFUND_Owner l) (SpentEFUND_Amount l) (e_spent s)) (e_totlocked s) (e_totspent s)), tt).
Definition ent_GetTotalSpentEFUND (w : eworld) : coin := total_spent (ew_ent w).
Definition ent_SetTotalSpentEFUND (w : eworld) (c : coin) : outcome (eworld * unit) :=
  let s := ew_ent w in Ok (with_ent w (with_books s (e_locked s) (e_spent s) (e_totlocked s) (Some c)), tt).

(* ---- x/bank ---- *)
Fixpoint send_all (b : bank) (from to : addr) (cs : list go_coin) : outcome bank :=
  match cs with
  | [] => Ok b
  | c :: r => do b1 <- bank_send b from to (fst c) (snd c); send_all b1 from to r
  end.
Fixpoint mint_all (b : bank) (macc : addr) (cs : list go_coin) : outcome bank :=
  match cs with
  | [] => Ok b
  | c :: r => do b1 <- bank_mint b macc (fst c) (snd c); mint_all b1 macc r
  end.
Definition bank_MintCoins (w : eworld) (macc : addr) (cs : list go_coin) : outcome (eworld * unit) :=
  do b <- mint_all (ew_bank w) macc cs; Ok (with_ebank w b, tt).
Definition bank_SendCoinsFromModuleToAccount (w : eworld) (macc to : addr) (cs : list go_coin) : outcome (eworld * unit) :=
  if blocked to then Err ERR_UNAUTHORIZED
  else do b <- send_all (ew_bank w) macc to cs; Ok (with_ebank w b, tt).
Definition bank_DelegateCoinsFromAccountToModule (w : eworld) (a macc : addr) (cs : list go_coin) : outcome (eworld * unit) :=
  do b <- send_all (ew_bank w) a macc cs; Ok (with_ebank w b, tt).
Definition bank_UndelegateCoinsFromModuleToAccount (w : eworld) (macc a : addr) (cs : list go_coin) : outcome (eworld * unit) :=
  do b <- send_all (ew_bank w) macc a cs; Ok (with_ebank w b, tt).
Definition bank_SpendableCoins (w : eworld) (a : addr) : list go_coin :=
  map (fun kv => (snd (fst kv), snd kv)) (filter (fun kv => (fst (fst kv) =? a) && (0 <? snd kv)) (bal (ew_bank w))).

(* ---- purchase orders and the two queues (blocker.go) ---- *)
Definition enterprise_PANIC : Z := PANIC_BLOCKER.     (* explicit panic(..) sites and panic(err) *)

Definition to_go_decision (d : decision) : go_PurchaseOrderDecision :=
  {| PurchaseOrderDecision_Signer := d_signer d; PurchaseOrderDecision_Decision := d_decision d;
     PurchaseOrderDecision_DecisionTime := d_time d |}.
Definition of_go_decision (g : go_PurchaseOrderDecision) : decision :=
  {| d_signer := PurchaseOrderDecision_Signer g; d_decision := PurchaseOrderDecision_Decision g;
     d_time := PurchaseOrderDecision_DecisionTime g |}.
Definition to_go_po (o : po) : go_EnterpriseUndPurchaseOrder :=
  {| EnterpriseUndPurchaseOrder_Id := po_id o; EnterpriseUndPurchaseOrder_Purchaser := po_purchaser o;
     EnterpriseUndPurchaseOrder_Amount := (po_denom o, po_amount o); EnterpriseUndPurchaseOrder_Status := po_status o;
     EnterpriseUndPurchaseOrder_RaiseTime := po_raise_time o; EnterpriseUndPurchaseOrder_CompletionTime := po_completion_time o;
     EnterpriseUndPurchaseOrder_Decisions := map to_go_decision (po_decisions o) |}.
Definition of_go_po (g : go_EnterpriseUndPurchaseOrder) : po :=
  {| po_id := EnterpriseUndPurchaseOrder_Id g; po_purchaser := EnterpriseUndPurchaseOrder_Purchaser g;
     po_denom := fst (EnterpriseUndPurchaseOrder_Amount g); po_amount := snd (EnterpriseUndPurchaseOrder_Amount g);
     po_status := EnterpriseUndPurchaseOrder_Status g; po_raise_time := EnterpriseUndPurchaseOrder_RaiseTime g;
     po_completion_time := EnterpriseUndPurchaseOrder_CompletionTime g;
     po_decisions := map of_go_decision (EnterpriseUndPurchaseOrder_Decisions g) |}.

Definition ent_GetAllRaisedPurchaseOrders (w : eworld) : list Z := e_raisedq (ew_ent w).
Definition ent_GetAllAcceptedPurchaseOrders (w : eworld) : list Z := e_acceptedq (ew_ent w).
Definition ent_GetParams (w : eworld) : go_Params :=
  let p := e_params (ew_ent w) in
  {| Params_EntSigners := ep_signers p; Params_Denom := ep_denom p; Params_MinAccepts := ep_min_accepts p;
     Params_DecisionTimeLimit := ep_time_limit p |}.
Definition ent_GetPurchaseOrder (w : eworld) (id : Z) : go_EnterpriseUndPurchaseOrder * bool :=
  match aget id (e_pos (ew_ent w)) with
  | Some o => (to_go_po o, true)
  | None => (zero_go_EnterpriseUndPurchaseOrder, false)
  end.
(* SetPurchaseOrder refuses a status outside raised / accepted / rejected / completed (ValidPurchaseOrderStatus) *)
Definition ent_SetPurchaseOrder (w : eworld) (g : go_EnterpriseUndPurchaseOrder) : outcome (eworld * unit) :=
  let s := ew_ent w in
  let st := EnterpriseUndPurchaseOrder_Status g in
  if negb ((1 <=? st) && (st <=? 4)) then Err ERR_ENT else
  Ok (with_ent w (with_pos s (aset (EnterpriseUndPurchaseOrder_Id g) (of_go_po g) (e_pos s)) (e_raisedq s) (e_acceptedq s)), tt).
Definition ent_RemovePurchaseOrderFromRaisedQueue (w : eworld) (id : Z) : outcome (eworld * unit) :=
  let s := ew_ent w in Ok (with_ent w (with_pos s (e_pos s) (remove_z id (e_raisedq s)) (e_acceptedq s)), tt).
Definition ent_RemovePurchaseOrderFromAcceptedQueue (w : eworld) (id : Z) : outcome (eworld * unit) :=
  let s := ew_ent w in Ok (with_ent w (with_pos s (e_pos s) (e_raisedq s) (remove_z id (e_acceptedq s))), tt).
Definition ent_AddPoToAcceptedQueue (w : eworld) (id : Z) : outcome (eworld * unit) :=
  let s := ew_ent w in Ok (with_ent w (with_pos s (e_pos s) (e_raisedq s) (e_acceptedq s ++ [id])), tt).
Definition ent_AccAddressFromBech32 (a : addr) : outcome addr := if addr_parses a then Ok a else Err ERR_ENT.

(* ---- message server: ids, whitelist, signers, parameters ---- *)
Definition KEEPER_authority : addr := GOV_MACC.
Definition govtypes_ErrInvalidSigner : Z := 42.          (* = ERR_GOV_AUTH of model/App.v *)
Definition sdkerrors_ErrUnauthorized : Z := ERR_ENT_UNAUTH.
Definition sdkerrors_ErrInvalidAddress : Z := ERR_ENT.
Definition sdkerrors_ErrInvalidCoins : Z := ERR_ENT.
Definition sdkerrors_ErrUnknownRequest : Z := ERR_ENT.
Definition enterprise_ErrInvalidDenomination : Z := ERR_ENT.
Definition enterprise_ErrInvalidData : Z := ERR_ENT.
Definition enterprise_ErrNotAuthorisedToRaisePO : Z := ERR_ENT_NOT_WL.
Definition enterprise_ErrPurchaseOrderDoesNotExist : Z := ERR_ENT.
Definition enterprise_ErrInvalidDecision : Z := ERR_ENT.
Definition enterprise_ErrInvalidStatus : Z := ERR_ENT.
Definition enterprise_ErrInvalidWhitelistAction : Z := ERR_ENT.
Definition enterprise_ErrPurchaseOrderNotRaised : Z := ERR_ENT_STATUS.
Definition enterprise_ErrPurchaseOrderAlreadyProcessed : Z := ERR_ENT_STATUS.
Definition enterprise_ErrSignerAlreadyMadeDecision : Z := ERR_ENT_ALREADY.
Definition enterprise_ErrAlreadyWhitelisted : Z := ERR_ENT_ALREADY.
Definition enterprise_ErrAddressNotWhitelisted : Z := ERR_ENT.

Definition with_next (s : ent_state) (n : Z) : ent_state :=
  {| e_params := e_params s; e_next := n; e_pos := e_pos s; e_raisedq := e_raisedq s; e_acceptedq := e_acceptedq s;
     e_wl := e_wl s; e_locked := e_locked s; e_spent := e_spent s; e_totlocked := e_totlocked s; e_totspent := e_totspent s |}.
Definition with_wl (s : ent_state) (wl : list addr) : ent_state :=
  {| e_params := e_params s; e_next := e_next s; e_pos := e_pos s; e_raisedq := e_raisedq s; e_acceptedq := e_acceptedq s;
     e_wl := wl; e_locked := e_locked s; e_spent := e_spent s; e_totlocked := e_totlocked s; e_totspent := e_totspent s |}.

(* the genesis always stores the counter *)
Definition ent_GetHighestPurchaseOrderID (w : eworld) : outcome Z := Ok (e_next (ew_ent w)).
Definition ent_SetHighestPurchaseOrderID (w : eworld) (n : Z) : outcome (eworld * unit) := Ok (with_ent w (with_next (ew_ent w) n), tt).
Definition ent_AddPoToRaisedQueue (w : eworld) (id : Z) : outcome (eworld * unit) :=
  let s := ew_ent w in Ok (with_ent w (with_pos s (e_pos s) (e_raisedq s ++ [id]) (e_acceptedq s)), tt).
(* GetParamEntSignersAsAddressArray: the entries that decode to a non-empty address *)
Definition ent_GetParamEntSignersAsAddressArray (w : eworld) : list addr :=
  filter addr_parses (ep_signers (e_params (ew_ent w))).
Definition ent_PurchaseOrderExists (w : eworld) (id : Z) : bool := ahas id (e_pos (ew_ent w)).
Definition ent_AddressIsWhitelisted (w : eworld) (a : addr) : bool := mem_addr a (e_wl (ew_ent w)).
Definition ent_AddAddressToWhitelist (w : eworld) (a : addr) : outcome (eworld * unit) :=
  let s := ew_ent w in Ok (with_ent w (with_wl s (e_wl s ++ [a])), tt).
Definition ent_RemoveAddressFromWhitelist (w : eworld) (a : addr) : outcome (eworld * unit) :=
  let s := ew_ent w in Ok (with_ent w (with_wl s (remove_z a (e_wl s))), tt).
Definition params_of_go (p : go_Params) : ent_params :=
  {| ep_denom := Params_Denom p; ep_min_accepts := Params_MinAccepts p; ep_time_limit := Params_DecisionTimeLimit p;
     ep_signers := Params_EntSigners p |}.
Definition ent_SetParams (w : eworld) (p : go_Params) : outcome (eworld * unit) :=
  do s' <- ent_set_params (ew_ent w) (params_of_go p); Ok (with_ent w s', tt).

(* ---- genesis (x/enterprise/genesis.go) ---- *)
(* the module account exists from InitChain on (maccPerms in app.go; a translator fact) *)
Definition ent_GetEnterpriseAccount (w : eworld) : go_modacc := Some ENT_MACC.
Definition bank_GetAllBalances (w : eworld) (a : addr) : list go_coin := bank_SpendableCoins w a.
Definition acc_SetModuleAccount (w : eworld) (m : go_modacc) : outcome (eworld * unit) := Ok (w, tt).
Definition ent_GetAllPurchaseOrders (w : eworld) : list go_EnterpriseUndPurchaseOrder :=
  map (fun kv => to_go_po (snd kv)) (e_pos (ew_ent w)).
Definition ent_GetAllLockedUnds (w : eworld) : list go_LockedUnd :=
  map (fun kv => mk_go_LockedUnd (fst kv) (snd kv)) (e_locked (ew_ent w)).
Definition ent_GetAllSpentEFUNDs (w : eworld) : list go_SpentEFUND :=
  map (fun kv => mk_go_SpentEFUND (fst kv) (snd kv)) (e_spent (ew_ent w)).
(* in the model's order (insertion); the chain iterates the store in address-byte order - abstract addresses carry no
   order, so statements about this listing are up to permutation *)
Definition ent_GetAllWhitelistedAddresses (w : eworld) : list addr := e_wl (ew_ent w).
Definition params_to_go (p : ent_params) : go_Params :=
  {| Params_EntSigners := ep_signers p; Params_Denom := ep_denom p; Params_MinAccepts := ep_min_accepts p;
     Params_DecisionTimeLimit := ep_time_limit p |}.

Definition enterprise_ErrInvalidParams : Z := ERR_ENT.     (* fmt.Errorf / errors.New in Params.Validate *)

(* ---- the supply queries (keeper/locked.go, keeper/grpc_query.go) ---- *)
(* x/bank GetSupply / GetBalance: a coin of the asked denomination, zero when nothing is recorded *)
Definition bank_GetSupply (w : eworld) (d : denom) : go_coin := (d, supply_of (ew_bank w) d).
Definition bank_GetBalance (w : eworld) (a : addr) (d : denom) : go_coin := (d, balance (ew_bank w) a d).
(* the bank's supply store as a listing: one entry per denomination with a non-zero supply (setSupply deletes a zero
   entry).  Denominations are abstract, so the order of the listing carries no meaning. *)
Definition supply_listing (b : bank) : list go_coin :=
  filter (fun c => negb (snd c =? 0)) (map (fun d => (d, supply_of b d)) (nodup Z.eq_dec (akeys (supply b)))).
(* GetPaginatedTotalSupply: query.Paginate over the supply store; the page request is what it selects (lib/GoSdk.v).
   On error the Go function returns (nil, nil, err). *)
Definition bank_GetPaginatedTotalSupply (w : eworld) (pg : go_PageRequest) : outcome (list go_coin * go_PageResponse) :=
  pg (supply_listing (ew_bank w)).
(* gRPC status codes: lib/GoSdk.v *)
