(* Correspondence checker for application histories (executable, no proofs).
   A trace is what the Go harness did to the real application and what it then read back
   through keeper/gRPC queries.  Observations are deltas: a (query, value) pair is emitted when
   the implementation's answer differs from the last one emitted; the checker keeps the
   latest value of every query seen so far and compares ALL of them with the model after
   every operation, so a model change the implementation did not make is noticed too. *)
From MC Require Import lib.Prelude lib.AMap lib.CheckLib model.Bank model.Stream model.Registry
  model.Enterprise model.App model.Genesis.

Inductive oval := VZ (z : Z) | VS (s : string) | VL (l : list string) | VNone.

Definition oval_eqb (a b : oval) : bool :=
  match a, b with
  | VZ x, VZ y => x =? y
  | VS x, VS y => String.eqb x y
  | VL x, VL y => list_eqb String.eqb x y
  | VNone, VNone => true
  | _, _ => false
  end.

Inductive qry :=
| QBal (a : addr) (d : denom)
| QSupply (d : denom)
| QPo (id : Z) (field : Z)          (* 0 status 1 amount 2 purchaser 3 #decisions 4 raise time 5 completion time 6 denom *)
| QLocked (a : addr) | QSpent (a : addr) | QTotLocked | QTotSpent
| QWhitelisted (a : addr)
| QEntParam (field : Z)             (* 0 denom 1 min accepts 2 time limit 3 #signers *)
| QReg (wrk : bool) (id : Z) (field : Z)   (* 0 owner 1 last 2 num 3 lowest 4 regtime 5 limit 6 max purchasable *)
| QRegS (wrk : bool) (id : Z) (field : Z)  (* 0 moniker 1 name 2 genesis 3 type *)
| QRec (wrk : bool) (id key : Z)           (* record time; VNone when absent *)
| QRecH (wrk : bool) (id key : Z)          (* record hashes *)
| QRegParam (wrk : bool) (field : Z)       (* 0 fee reg 1 fee rec 2 fee purchase 3 denom 4 default limit 5 max limit *)
| QStream (r sn : addr) (field : Z)        (* 0 deposit 1 rate 2 lot 3 dzt 4 denom ; VNone when absent *)
| QStrParam
| QSupplyOf (d : denom)                    (* enterprise SupplyOf query *)
| QEntSupply (field : Z).                  (* 0 locked 1 unlocked 2 total *)

(* which part of the state a query belongs to: used to project disagreements per property *)
Definition CAT_BANK := 1. Definition CAT_ENT := 2. Definition CAT_WRK := 3. Definition CAT_BCN := 4.
Definition CAT_STR := 5. Definition CAT_SUPPLYQ := 6. Definition CAT_RESULT := 7. Definition CAT_HALT := 8.
Definition CAT_PARAMS := 9.

Definition qry_cat (q : qry) : Z :=
  match q with
  | QBal _ _ | QSupply _ => CAT_BANK
  | QPo _ _ | QLocked _ | QSpent _ | QTotLocked | QTotSpent | QWhitelisted _ => CAT_ENT
  | QEntParam _ | QRegParam _ _ | QStrParam => CAT_PARAMS
  | QReg w _ _ | QRegS w _ _ | QRec w _ _ | QRecH w _ _ => if w then CAT_WRK else CAT_BCN
  | QStream _ _ _ => CAT_STR
  | QSupplyOf _ | QEntSupply _ => CAT_SUPPLYQ
  end.

Definition qry_eqb (a b : qry) : bool :=
  match a, b with
  | QBal x d, QBal y e => (x =? y) && (d =? e)
  | QSupply d, QSupply e => d =? e
  | QPo i f, QPo j g => (i =? j) && (f =? g)
  | QLocked x, QLocked y | QSpent x, QSpent y | QWhitelisted x, QWhitelisted y => x =? y
  | QTotLocked, QTotLocked | QTotSpent, QTotSpent | QStrParam, QStrParam => true
  | QEntParam f, QEntParam g | QEntSupply f, QEntSupply g => f =? g
  | QReg w i f, QReg v j g | QRegS w i f, QRegS v j g | QRec w i f, QRec v j g | QRecH w i f, QRecH v j g =>
      Bool.eqb w v && (i =? j) && (f =? g)
  | QRegParam w f, QRegParam v g => Bool.eqb w v && (f =? g)
  | QStream r s f, QStream r' s' g => (r =? r') && (s =? s') && (f =? g)
  | QSupplyOf d, QSupplyOf e => d =? e
  | _, _ => false
  end.

Definition ozs {A} (o : option A) (f : A -> oval) : oval := match o with Some x => f x | None => VNone end.

Definition eval_qry (a : app) (q : qry) : oval :=
  match q with
  | QBal x d => VZ (balance (a_bank a) x d)
  | QSupply d => VZ (supply_of (a_bank a) d)
  | QPo id f =>
      ozs (aget id (e_pos (a_ent a))) (fun o =>
        match f with
        | 0 => VZ (po_status o) | 1 => VZ (po_amount o) | 2 => VZ (po_purchaser o)
        | 3 => VZ (Z.of_nat (List.length (po_decisions o))) | 4 => VZ (po_raise_time o)
        | 5 => VZ (po_completion_time o) | _ => VZ (po_denom o)
        end)
  | QLocked x => VZ (snd (locked_coin (a_ent a) x))
  | QSpent x => VZ (snd (spent_coin (a_ent a) x))
  | QTotLocked => VZ (snd (total_locked (a_ent a)))
  | QTotSpent => VZ (snd (total_spent (a_ent a)))
  | QWhitelisted x => VZ (if mem_addr x (e_wl (a_ent a)) then 1 else 0)
  | QEntParam f =>
      let p := e_params (a_ent a) in
      match f with
      | 0 => VZ (ep_denom p) | 1 => VZ (ep_min_accepts p) | 2 => VZ (ep_time_limit p)
      | _ => VZ (Z.of_nat (List.length (ep_signers p)))
      end
  | QReg w id f =>
      let s := if w then a_wrk a else a_bcn a in
      ozs (aget id (r_regs s)) (fun rg =>
        match f with
        | 0 => VZ (rg_owner rg) | 1 => VZ (rg_last rg) | 2 => VZ (rg_num rg) | 3 => VZ (rg_lowest rg)
        | 4 => VZ (rg_regtime rg) | 5 => VZ (limit_of s id) | _ => VZ (max_purchasable s id)
        end)
  | QRegS w id f =>
      let s := if w then a_wrk a else a_bcn a in
      ozs (aget id (r_regs s)) (fun rg =>
        match f with
        | 0 => VS (rg_moniker rg) | 1 => VS (rg_name rg) | 2 => VS (rg_genesis rg) | _ => VS (rg_type rg)
        end)
  | QRec w id k =>
      let s := if w then a_wrk a else a_bcn a in
      ozs (aget (id, k) (r_recs s)) (fun rc => VZ (rc_time rc))
  | QRecH w id k =>
      let s := if w then a_wrk a else a_bcn a in
      ozs (aget (id, k) (r_recs s)) (fun rc => VL (rc_hashes rc))
  | QRegParam w f =>
      let p := r_params (if w then a_wrk a else a_bcn a) in
      match f with
      | 0 => VZ (rp_fee_register p) | 1 => VZ (rp_fee_record p) | 2 => VZ (rp_fee_purchase p)
      | 3 => VZ (rp_denom p) | 4 => VZ (rp_default_limit p) | _ => VZ (rp_max_limit p)
      end
  | QStream r sn f =>
      ozs (aget (r, sn) (s_streams (a_str a))) (fun st =>
        match f with
        | 0 => VZ (st_deposit st) | 1 => VZ (st_rate st) | 2 => VZ (st_lot st) | 3 => VZ (st_dzt st)
        | _ => VZ (st_denom st)
        end)
  | QStrParam => VZ (s_valfee (a_str a))
  | QSupplyOf d => match q_supply_of (a_bank a) (a_ent a) d with Ok z => VZ z | _ => VNone end
  | QEntSupply f =>
      match q_ent_supply (a_bank a) (a_ent a) with
      | Ok (l, u, t) => VZ (match f with 0 => l | 1 => u | _ => t end)
      | _ => VNone
      end
  end.

(* observed result class: 0 ok, 1 error, 2 panic, 50/51/52/54 the fee decorators' own errors *)
Definition fine_code (c : Z) : Z :=
  if (c =? ERR_FEE_DENOM) || (c =? ERR_FEE_INSUFFICIENT) || (c =? ERR_FEE_TOO_MUCH) || (c =? ERR_FEE_MAX_STORAGE) then c else 1.
Definition res_class (r : tx_result) : Z :=
  match r with
  | TxOk => 0
  | TxRejected c => fine_code c
  | TxFailed c => fine_code c
  | TxPanicked _ _ => 2
  end.

(* ti_reimport: before this operation the implementation was exported (ExportAppStateAndValidators) and a
   fresh application was started from the exported document (InitChain); the model does the same *)
Record titem := { ti_op : op; ti_res : option Z; ti_obs : list (qry * oval); ti_reimport : bool }.
Record trace := { tr_genesis : app; tr_items : list titem }.

Fixpoint upd_known (known : list (qry * oval)) (q : qry) (v : oval) : list (qry * oval) :=
  match known with
  | [] => [(q, v)]
  | (q', v') :: r => if qry_eqb q q' then (q, v) :: r else (q', v') :: upd_known r q v
  end.

Definition obs_state (n : node) (o : op) : app :=
  match o with
  | OpCheck _ | OpCommit | OpCrash => n_check n
  | _ => match n_deliver n with Some a => a | None => n_committed n end
  end.

(* categories of the disagreements at the first operation where model and implementation differ;
   [] when the whole trace agrees.  Result: (op index, categories). *)
Fixpoint check_items (i : nat) (n : node) (known : list (qry * oval)) (items : list titem) : nat * list Z :=
  match items with
  | [] => (i, [])
  | it :: rest =>
      match (if ti_reimport it then reimport_node n else Some n) with
      | None => (i, [CAT_HALT])
      | Some n =>
      match node_step n (ti_op it) with
      | None => (i, [CAT_HALT])          (* the model says the chain halts here; the harness got further *)
      | Some (n', r) =>
          let known' := fold_left (fun k qv => upd_known k (fst qv) (snd qv)) (ti_obs it) known in
          let st := obs_state n' (ti_op it) in
          let bad_q := map (fun qv => qry_cat (fst qv))
                           (filter (fun qv => negb (oval_eqb (eval_qry st (fst qv)) (snd qv))) known') in
          let bad_r := match r, ti_res it with
                       | Some mr, Some ir => if res_class mr =? ir then [] else [CAT_RESULT]
                       | _, _ => []
                       end in
          match bad_r ++ bad_q with
          | [] => check_items (S i) n' known' rest
          | bad => (i, bad)
          end
      end
      end
  end.

Definition check_trace (t : trace) : nat * list Z :=
  let g := tr_genesis t in
  check_items 0 {| n_committed := g; n_deliver := None; n_check := g |} [] (tr_items t).

Definition dedup_z (l : list Z) : list Z :=
  fold_right (fun x acc => if existsb (Z.eqb x) acc then acc else x :: acc) [] l.

(* for every trace with a disagreement: (trace index, category) for each distinct category *)
Fixpoint traces_bad_corr (i : nat) (ts : list trace) : list (nat * Z) :=
  match ts with
  | [] => []
  | t :: r => map (fun c => (i, c)) (dedup_z (snd (check_trace t))) ++ traces_bad_corr (S i) r
  end.

(* where (op index) each trace first disagrees; for replay files *)
Definition traces_first_bad (ts : list trace) : list (nat * nat) :=
  map (fun t => (fst (check_trace t), List.length (snd (check_trace t)))) ts.

(* debugging aid: at the first disagreement, (op index, model result class, implementation result class) *)
Fixpoint debug_items (i : nat) (n : node) (items : list titem) : list (nat * Z * Z) :=
  match items with
  | [] => []
  | it :: rest =>
      match node_step n (ti_op it) with
      | None => [(i, -1, -1)]
      | Some (n', r) =>
          match r, ti_res it with
          | Some mr, Some ir =>
              if res_class mr =? ir then debug_items (S i) n' rest
              else [(i, match mr with TxOk => 0 | TxRejected c => 1000 + c | TxFailed c => 2000 + c | TxPanicked st c => 3000 + 100 * st + c end, ir)]
          | _, _ => debug_items (S i) n' rest
          end
      end
  end.
Definition debug_trace (t : trace) :=
  let g := tr_genesis t in debug_items 0 {| n_committed := g; n_deliver := None; n_check := g |} (tr_items t).
