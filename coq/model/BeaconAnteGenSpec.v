(* Vocabulary for the theorems that tie the GENERATED fee check of the BEACON ante decorator (go_CheckIsBeaconTx,
   go_checkBeaconFees in GeneratedBeaconKeeper.v) to the model's [check_fees] (model/App.v).  Definitions only. *)
From MC Require Import lib.Prelude lib.AMap lib.GoSdk GeneratedBeaconTypes model.Bank model.Registry model.App
  model.BeaconKeeperPrims GeneratedBeaconKeeper model.BeaconGenSpec.

Definition anymsg_of (m : msg) : go_anymsg :=
  match m with
  | MBcn (RRegister owner moniker name _ _) =>
      AM_MsgRegisterBeacon {| MsgRegisterBeacon_Moniker := moniker; MsgRegisterBeacon_Name := name; MsgRegisterBeacon_Owner := owner |}
  | MBcn (RRecord owner id key hashes) =>
      AM_MsgRecordBeaconTimestamp {| MsgRecordBeaconTimestamp_BeaconId := id; MsgRecordBeaconTimestamp_Hash := nth 0 hashes EmptyString;
              MsgRecordBeaconTimestamp_SubmitTime := key; MsgRecordBeaconTimestamp_Owner := owner |}
  | MBcn (RPurchase owner id n) =>
      AM_MsgPurchaseBeaconStateStorage {| MsgPurchaseBeaconStateStorage_BeaconId := id;
              MsgPurchaseBeaconStateStorage_Number := n; MsgPurchaseBeaconStateStorage_Owner := owner |}
  | _ => AM_Other (msg_type m)
  end.

Definition gotx_of (t : tx) : go_tx :=
  {| Tx_Msgs := map anymsg_of (tx_msgs t); Tx_Fee := tx_fee t; Tx_FeePayer := tx_payer t |}.
