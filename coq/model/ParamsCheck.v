(* Correspondence check and monitor for the four Params.Validate functions (C16). *)
From MC Require Import lib.Prelude lib.CheckLib model.Bank model.Stream model.Registry model.Enterprise.

Inductive param_case :=
| PCEnt (p : ent_params) (obs : bool)      (* obs: Validate() returned nil *)
| PCReg (p : reg_params) (obs : bool)
| PCStr (v : Z) (obs : bool).

Definition params_corr_ok (c : param_case) : bool :=
  match c with
  | PCEnt p obs => Bool.eqb (ent_params_valid p) obs
  | PCReg p obs => Bool.eqb (reg_params_valid p) obs
  | PCStr v obs => Bool.eqb (str_params_valid v) obs
  end.

(* the validity rules as the property states them, written independently of the model's functions *)
Definition params_mon_ok (c : param_case) : bool :=
  match c with
  | PCEnt p obs =>
      let n := Z.of_nat (List.length (ep_signers p)) in
      let wellformed := forallb (fun a => 0 <=? a) (ep_signers p) in
      Bool.eqb obs ((0 <=? ep_denom p) && (1 <=? ep_min_accepts p) && (1 <=? ep_time_limit p)
                    && (1 <=? n) && wellformed && (ep_min_accepts p <=? n))
  | PCReg p obs =>
      Bool.eqb obs ((0 <=? rp_denom p) && (1 <=? rp_fee_register p) && (1 <=? rp_fee_record p) && (1 <=? rp_fee_purchase p)
                    && (1 <=? rp_default_limit p) && (1 <=? rp_max_limit p) && (rp_default_limit p <=? rp_max_limit p))
  | PCStr v obs => Bool.eqb obs ((0 <=? v) && (v <=? DEC_ONE))
  end.

Definition params_bad_corr (l : list param_case) : list nat := bad_indices params_corr_ok 0 l.
Definition params_bad_mon (l : list param_case) : list nat := bad_indices params_mon_ok 0 l.
