(* Vocabulary for the theorems that tie the code GENERATED from /repo/x/wrkchain/keeper (GeneratedWrkchainKeeper.v)
   to the hand-written registry model (model/Registry.v, heighted = true).  Definitions only. *)
From MC Require Import lib.Prelude lib.AMap lib.GoSdk GeneratedWrkchainTypes model.Bank model.Registry model.RegistrySpec
  model.WrkchainKeeperPrims GeneratedWrkchainKeeper.

(* a model result seen as a result of the generated code *)
Definition rlift {A} (w : rworld) (o : outcome (reg_state * A)) : outcome (rworld * A) :=
  match o with
  | Ok (s, a) => Ok (with_reg w s, a)
  | Err c => Err c
  | Panic c => Panic c
  end.

Definition hash_at (n : nat) (hashes : list string) : string := nth n hashes EmptyString.

(* the generated message server, driven by the model's message type; a WRKChain record carries exactly five strings *)
Definition wrk_msg_exec (w : rworld) (m : reg_msg) : outcome (rworld * reg_resp) :=
  match m with
  | RRegister owner moniker name genesis type =>
      do (w', rsp) <- go_RegisterWrkChain w
           {| MsgRegisterWrkChain_Moniker := moniker; MsgRegisterWrkChain_Name := name; MsgRegisterWrkChain_GenesisHash := genesis;
              MsgRegisterWrkChain_BaseType := type; MsgRegisterWrkChain_Owner := owner |};
      Ok (w', RespRegistered (MsgRegisterWrkChainResponse_WrkchainId rsp))
  | RRecord owner id key hashes =>
      do (w', rsp) <- go_RecordWrkChainBlock w
           {| MsgRecordWrkChainBlock_WrkchainId := id; MsgRecordWrkChainBlock_Height := key;
              MsgRecordWrkChainBlock_BlockHash := hash_at 0 hashes; MsgRecordWrkChainBlock_ParentHash := hash_at 1 hashes;
              MsgRecordWrkChainBlock_Hash1 := hash_at 2 hashes; MsgRecordWrkChainBlock_Hash2 := hash_at 3 hashes;
              MsgRecordWrkChainBlock_Hash3 := hash_at 4 hashes; MsgRecordWrkChainBlock_Owner := owner |};
      Ok (w', RespRecorded (MsgRecordWrkChainBlockResponse_WrkchainId rsp) (MsgRecordWrkChainBlockResponse_Height rsp))
  | RPurchase owner id n =>
      do (w', rsp) <- go_PurchaseWrkChainStateStorage w
           {| MsgPurchaseWrkChainStateStorage_WrkchainId := id; MsgPurchaseWrkChainStateStorage_Number := n;
              MsgPurchaseWrkChainStateStorage_Owner := owner |};
      Ok (w', RespPurchased (MsgPurchaseWrkChainStateStorageResponse_WrkchainId rsp)
                            (MsgPurchaseWrkChainStateStorageResponse_NumberPurchased rsp)
                            (MsgPurchaseWrkChainStateStorageResponse_NumCanPurchase rsp))
  end.

(* machine-integer side conditions: the model counts in Z, Go in uint64 *)
Definition reg_counters_small (s : reg_state) : Prop :=
  0 <= r_next s < two64 - 1 /\
  0 <= rp_max_limit (r_params s) < two64 /\ 0 <= rp_default_limit (r_params s) < two64 /\
  (forall id l, aget id (r_limits s) = Some l -> 0 <= l < two64) /\
  (forall id rg, aget id (r_regs s) = Some rg ->
     0 <= rg_num rg < two64 - 1 /\ 0 <= rg_last rg < two64 - 1 /\ 0 <= rg_lowest rg < two64 - 1).
