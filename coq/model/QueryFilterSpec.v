(* Specification filters of the three gRPC list queries that go through query.FilteredPaginate:
     x/wrkchain  WrkChainsFiltered            (owner, moniker)
     x/beacon    BeaconsFiltered              (owner, moniker)
     x/enterprise EnterpriseUndPurchaseOrders (status, purchaser)
   written by hand as boolean functions of (request, stored item).  No proofs in this file; the
   callbacks generated from the Go source are proved to be "append iff filter && accumulate, report
   filter" for these filters in proofs/Generated{Wrkchain,Beacon,Enterprise}QueryEq.v.

   An empty owner / purchaser string is [go_zero_addr] (lib/GoSdk.v), an empty moniker is "",
   STATUS_NIL is 0. *)
From MC Require Import lib.Prelude lib.GoSdk.
From MC Require GeneratedWrkchainTypes GeneratedBeaconTypes GeneratedEnterpriseTypes.
Local Open Scope Z_scope.

Definition str_empty (s : string) : bool := String.eqb s EmptyString.

Module WT := MC.GeneratedWrkchainTypes.
Module BT := MC.GeneratedBeaconTypes.
Module ET := MC.GeneratedEnterpriseTypes.

(* (req.Owner == "" || wc.Owner == req.Owner) && (req.Moniker == "" || wc.Moniker == req.Moniker) *)
Definition wrk_list_flt (req : WT.go_QueryWrkChainsFilteredRequest) (wc : WT.go_WrkChain) : bool :=
  ((WT.QueryWrkChainsFilteredRequest_Owner req =? go_zero_addr)
   || (WT.WrkChain_Owner wc =? WT.QueryWrkChainsFilteredRequest_Owner req))
  && (str_empty (WT.QueryWrkChainsFilteredRequest_Moniker req)
      || String.eqb (WT.WrkChain_Moniker wc) (WT.QueryWrkChainsFilteredRequest_Moniker req)).

Definition bcn_list_flt (req : BT.go_QueryBeaconsFilteredRequest) (b : BT.go_Beacon) : bool :=
  ((BT.QueryBeaconsFilteredRequest_Owner req =? go_zero_addr)
   || (BT.Beacon_Owner b =? BT.QueryBeaconsFilteredRequest_Owner req))
  && (str_empty (BT.QueryBeaconsFilteredRequest_Moniker req)
      || String.eqb (BT.Beacon_Moniker b) (BT.QueryBeaconsFilteredRequest_Moniker req)).

(* (req.Status == STATUS_NIL || po.Status == req.Status) && (req.Purchaser == "" || po.Purchaser == req.Purchaser) *)
Definition ent_po_flt (req : ET.go_QueryEnterpriseUndPurchaseOrdersRequest) (po : ET.go_EnterpriseUndPurchaseOrder) : bool :=
  ((ET.QueryEnterpriseUndPurchaseOrdersRequest_Status req =? 0)
   || (ET.EnterpriseUndPurchaseOrder_Status po =? ET.QueryEnterpriseUndPurchaseOrdersRequest_Status req))
  && ((ET.QueryEnterpriseUndPurchaseOrdersRequest_Purchaser req =? go_zero_addr)
      || (ET.EnterpriseUndPurchaseOrder_Purchaser po =? ET.QueryEnterpriseUndPurchaseOrdersRequest_Purchaser req)).
