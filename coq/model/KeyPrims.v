(* The primitives the translated key builders and parsers (GeneratedKeys.v, from x/*/types/keys.go) are written
   against, described by hand.  Trusted:
     - a byte string is a [list N] with one entry < 256 per byte; a slice's capacity equals its length (slicing beyond
       the length panics, as it does for the keys handed out by store iterators);
     - encoding/binary BigEndian.PutUint64 / Uint64 are [be64] / [de64] of model/Keys.v on the first 8 bytes, with Go's
       index panic for a shorter slice;
     - cosmos-sdk v0.47.13 address.MustLengthPrefix (types/address/store_key.go), sdk.ParseLengthPrefixedBytes
       (types/utils.go) and kv.AssertKeyAtLeastLength (types/kv/helpers.go), read from the vendored source.
   Integers of the translated functions are non-negative (bytes, lengths, sums of them): they are N. *)
From MC Require Import lib.Prelude model.Keys.
From Coq Require Import NArith.
Local Open Scope N_scope.

Definition GO_PANIC_INDEX : Z := 9%Z.       (* index / slice bounds out of range *)
Definition GO_PANIC_EXPLICIT : Z := 10%Z.   (* panic(..) in the translated function *)
Definition GO_PANIC_LENPREFIX : Z := 11%Z.  (* MustLengthPrefix: address longer than 255 bytes *)
Definition GO_PANIC_KEYLEN : Z := 12%Z.     (* AssertKeyAtLeastLength *)
Definition GO_UNMODELLED : Z := 99%Z.       (* outside what the description covers (see sdk_ParseLengthPrefixedBytes) *)

Definition bytes_len (b : list N) : N := N.of_nat (List.length b).
Definition bytes_make (n : N) : list N := repeat 0 (N.to_nat n).
Definition bytes_index (b : list N) (i : N) : outcome N :=
  match nth_error b (N.to_nat i) with Some x => Ok x | None => Panic GO_PANIC_INDEX end.
(* b[lo:] *)
Definition bytes_from (b : list N) (lo : N) : outcome (list N) :=
  if bytes_len b <? lo then Panic GO_PANIC_INDEX else Ok (skipn (N.to_nat lo) b).
(* b[lo:hi] *)
Definition bytes_slice (b : list N) (lo hi : N) : outcome (list N) :=
  if (hi <? lo) || (bytes_len b <? hi) then Panic GO_PANIC_INDEX
  else Ok (firstn (N.to_nat (hi - lo)) (skipn (N.to_nat lo) b)).

(* binary.BigEndian.PutUint64(b, v): writes b[0..7] (the uint64 argument is < 2^64 by its type) *)
Definition be_PutUint64 (b : list N) (v : N) : outcome (list N) :=
  if bytes_len b <? 8 then Panic GO_PANIC_INDEX else Ok (be64 v ++ skipn 8 b).
(* binary.BigEndian.Uint64(b): reads b[0..7] *)
Definition be_Uint64 (b : list N) : outcome N :=
  match de64_checked b with Some v => Ok v | None => Panic GO_PANIC_INDEX end.

(* address.MustLengthPrefix: nil for an empty address, else one length byte and the address; panics above 255 bytes *)
Definition address_MustLengthPrefix (a : list N) : outcome (list N) :=
  if 255 <? bytes_len a then Panic GO_PANIC_LENPREFIX else Ok (length_prefix a).

(* kv.AssertKeyAtLeastLength(bz, length): panics when len(bz) < length *)
Definition kv_AssertKeyAtLeastLength (b : list N) (n : N) : outcome unit :=
  if bytes_len b <? n then Panic GO_PANIC_KEYLEN else Ok tt.

(* sdk.ParseLengthPrefixedBytes(bz, startIndex, sliceLength):
     neededLength := startIndex + sliceLength; endIndex := neededLength - 1
     kv.AssertKeyAtLeastLength(bz, neededLength); return bz[startIndex:neededLength], endIndex
   For startIndex + sliceLength = 0 the Go endIndex is -1, which N cannot hold: that call is outside the description
   (the translated callers start at index 1 or later). *)
Definition sdk_ParseLengthPrefixedBytes (b : list N) (start n : N) : outcome (list N * N) :=
  if start + n =? 0 then Panic GO_UNMODELLED
  else if bytes_len b <? start + n then Panic GO_PANIC_KEYLEN
  else Ok (firstn (N.to_nat n) (skipn (N.to_nat start) b), start + n - 1).
