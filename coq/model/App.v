(* Application-level model: messages (with authz.MsgExec nesting), transactions, the ante
   chain of ante/ante.go in its real order, baseapp.runTx's two cache layers (ante effects
   survive a failing message; a failing ante stage changes nothing), BeginBlock / EndBlock
   (governance-executed parameter updates), CheckTx on the separate check state, Commit.
   Not modelled: gas, sequences (a wrong sequence is a bad-signature bit), IBC, staking. *)
From MC Require Import lib.Prelude lib.AMap model.Bank model.Stream model.Registry model.Enterprise.

Inductive upd_params :=
| UEnt (p : ent_params)
| UWrk (p : reg_params)
| UBcn (p : reg_params)
| UStr (valfee : Z).

Inductive msg :=
| MEnt (m : ent_msg)
| MWrk (m : reg_msg)
| MBcn (m : reg_msg)
| MStr (m : str_msg)
| MSend (from to : addr) (coins : list coin)
| MGrant (granter grantee : addr) (typ : Z)          (* authz.MsgGrant with a GenericAuthorization *)
| MFeeAllow (granter grantee : addr)                 (* feegrant.MsgGrantAllowance, unlimited BasicAllowance *)
| MExec (grantee : addr) (inner : list msg)          (* authz.MsgExec *)
| MUpdParams (authority : addr) (u : upd_params).

(* message type classes (one per type URL), used by authz grants *)
Definition msg_type (m : msg) : Z :=
  match m with
  | MEnt (ERaise _ _ _) => 1 | MEnt (EDecide _ _ _) => 2 | MEnt (EWhitelist _ _ _) => 3
  | MWrk (RRegister _ _ _ _ _) => 4 | MWrk (RRecord _ _ _ _) => 5 | MWrk (RPurchase _ _ _) => 6
  | MBcn (RRegister _ _ _ _ _) => 7 | MBcn (RRecord _ _ _ _) => 8 | MBcn (RPurchase _ _ _) => 9
  | MStr (SCreate _ _ _ _ _) => 10 | MStr (SClaim _ _) => 11 | MStr (STopUp _ _ _ _) => 12
  | MStr (SUpdateFlow _ _ _) => 13 | MStr (SCancel _ _) => 14
  | MSend _ _ _ => 15 | MGrant _ _ _ => 16 | MFeeAllow _ _ => 17 | MExec _ _ => 18
  | MUpdParams _ (UEnt _) => 19 | MUpdParams _ (UWrk _) => 20 | MUpdParams _ (UBcn _) => 21
  | MUpdParams _ (UStr _) => 22
  end.

(* GetSigners()[0] *)
Definition msg_signer (m : msg) : addr :=
  match m with
  | MEnt e => ent_signer e
  | MWrk r => reg_signer r
  | MBcn r => reg_signer r
  | MStr s => str_signer s
  | MSend from _ _ => from
  | MGrant granter _ _ => granter
  | MFeeAllow granter _ => granter
  | MExec grantee _ => grantee
  | MUpdParams authority _ => authority
  end.

Record app := {
  a_bank : bank;
  a_ent : ent_state;
  a_wrk : reg_state;
  a_bcn : reg_state;
  a_str : str_state;
  a_grants : list (addr * addr * Z);     (* (granter, grantee, message type) *)
  a_allow : list (addr * addr);          (* fee allowances (granter, grantee) *)
  a_now : Z                              (* block time, ns *)
}.

Definition with_bank (a : app) (b : bank) : app :=
  {| a_bank := b; a_ent := a_ent a; a_wrk := a_wrk a; a_bcn := a_bcn a; a_str := a_str a;
     a_grants := a_grants a; a_allow := a_allow a; a_now := a_now a |}.
Definition with_ent (a : app) (b : bank) (e : ent_state) : app :=
  {| a_bank := b; a_ent := e; a_wrk := a_wrk a; a_bcn := a_bcn a; a_str := a_str a;
     a_grants := a_grants a; a_allow := a_allow a; a_now := a_now a |}.
Definition with_wrk (a : app) (r : reg_state) : app :=
  {| a_bank := a_bank a; a_ent := a_ent a; a_wrk := r; a_bcn := a_bcn a; a_str := a_str a;
     a_grants := a_grants a; a_allow := a_allow a; a_now := a_now a |}.
Definition with_bcn (a : app) (r : reg_state) : app :=
  {| a_bank := a_bank a; a_ent := a_ent a; a_wrk := a_wrk a; a_bcn := r; a_str := a_str a;
     a_grants := a_grants a; a_allow := a_allow a; a_now := a_now a |}.
Definition with_str (a : app) (b : bank) (s : str_state) : app :=
  {| a_bank := b; a_ent := a_ent a; a_wrk := a_wrk a; a_bcn := a_bcn a; a_str := s;
     a_grants := a_grants a; a_allow := a_allow a; a_now := a_now a |}.
Definition with_time (a : app) (t : Z) : app :=
  {| a_bank := a_bank a; a_ent := a_ent a; a_wrk := a_wrk a; a_bcn := a_bcn a; a_str := a_str a;
     a_grants := a_grants a; a_allow := a_allow a; a_now := t |}.

Definition ERR_APP : Z := 40.
Definition ERR_AUTHZ : Z := 41.
Definition ERR_GOV_AUTH : Z := 42.         (* "invalid authority" *)
Definition ERR_BAD_SIG : Z := 43.
Definition ERR_OUT_OF_FUEL : Z := 44.

Definition coins_valid (cs : list coin) : bool :=
  forallb (fun c => (0 <? snd c) && (0 <=? fst c)) cs.

Definition upd_valid (u : upd_params) : bool :=
  match u with
  | UEnt p => ent_params_valid p
  | UWrk p => reg_params_valid p
  | UBcn p => reg_params_valid p
  | UStr v => str_params_valid v
  end.

(* ValidateBasic, recursing into MsgExec (authz.MsgExec.ValidateBasic validates inner messages) *)
Fixpoint validate_basic (fuel : nat) (m : msg) : outcome unit :=
  match fuel with
  | O => Err ERR_OUT_OF_FUEL
  | S f =>
      match m with
      | MEnt e => ent_validate_basic e
      | MWrk r => reg_validate_basic true r
      | MBcn r => reg_validate_basic false r
      | MStr s => str_validate_basic s
      | MSend _ _ coins => if coins_valid coins && negb (Nat.eqb (List.length coins) 0) then Ok tt else Err ERR_APP
      | MGrant granter grantee _ => if granter =? grantee then Err ERR_APP else Ok tt
      | MFeeAllow granter grantee => if granter =? grantee then Err ERR_APP else Ok tt
      | MExec _ inner =>
          if Nat.eqb (List.length inner) 0 then Err ERR_APP else
          fold_left (fun acc i => do _ <- acc; validate_basic f i) inner (Ok tt)
      | MUpdParams _ u => if upd_valid u then Ok tt else Err ERR_APP
      end
  end.

Definition has_grant (a : app) (granter grantee : addr) (typ : Z) : bool :=
  existsb (fun g => (fst (fst g) =? granter) && (snd (fst g) =? grantee) && (snd g =? typ)) (a_grants a).

(* bank MsgSend: blocked recipients are refused; coins move one denomination at a time *)
Fixpoint send_coins (b : bank) (from to : addr) (cs : list coin) : outcome bank :=
  match cs with
  | [] => Ok b
  | c :: r => do b1 <- bank_send b from to (fst c) (snd c); send_coins b1 from to r
  end.

(* all coins must be affordable before anything moves (subUnlockedCoins checks the whole set) *)
Definition can_afford (b : bank) (a : addr) (cs : list coin) : bool :=
  forallb (fun c => snd c <=? balance b a (fst c)) cs.

Definition reg_with_params (s : reg_state) (p : reg_params) : reg_state :=
  {| r_params := p; r_next := r_next s; r_regs := r_regs s; r_limits := r_limits s; r_recs := r_recs s |}.

(* the message server of each module *)
Fixpoint exec_msg (fuel : nat) (a : app) (m : msg) : outcome app :=
  match fuel with
  | O => Err ERR_OUT_OF_FUEL
  | S f =>
      match m with
      | MEnt e =>
          do (e', _) <- ent_exec (unix (a_now a)) (a_ent a) e;
          Ok (with_ent a (a_bank a) e')
      | MWrk r =>
          do (r', _) <- reg_exec true (unix (a_now a)) (a_wrk a) r;
          Ok (with_wrk a r')
      | MBcn r =>
          do (r', _) <- reg_exec false (unix (a_now a)) (a_bcn a) r;
          Ok (with_bcn a r')
      | MStr s =>
          do (b', s', _) <- str_exec (a_now a) (a_bank a) (a_str a) s;
          Ok (with_str a b' s')
      | MSend from to coins =>
          if blocked to then Err ERR_UNAUTHORIZED else
          if negb (can_afford (a_bank a) from coins) then Err ERR_INSUFFICIENT else
          do b' <- send_coins (a_bank a) from to coins;
          Ok (with_bank a b')
      | MGrant granter grantee typ =>
          Ok {| a_bank := a_bank a; a_ent := a_ent a; a_wrk := a_wrk a; a_bcn := a_bcn a; a_str := a_str a;
                a_grants := (granter, grantee, typ) :: a_grants a; a_allow := a_allow a; a_now := a_now a |}
      | MFeeAllow granter grantee =>
          if existsb (fun g => (fst g =? granter) && (snd g =? grantee)) (a_allow a) then Err ERR_APP else
          Ok {| a_bank := a_bank a; a_ent := a_ent a; a_wrk := a_wrk a; a_bcn := a_bcn a; a_str := a_str a;
                a_grants := a_grants a; a_allow := (granter, grantee) :: a_allow a; a_now := a_now a |}
      | MExec grantee inner =>
          (* DispatchActions: each inner message runs for its own signer; without a grant only
             when that signer is the grantee itself *)
          fold_left (fun acc i =>
                       do a1 <- acc;
                       if (msg_signer i =? grantee) || has_grant a1 (msg_signer i) grantee (msg_type i)
                       then exec_msg f a1 i else Err ERR_AUTHZ)
                    inner (Ok a)
      | MUpdParams authority u =>
          if negb (authority =? GOV_MACC) then Err ERR_GOV_AUTH else
          match u with
          | UEnt p => do e' <- ent_set_params (a_ent a) p; Ok (with_ent a (a_bank a) e')
          | UWrk p => if reg_params_valid p then Ok (with_wrk a (reg_with_params (a_wrk a) p)) else Err ERR_APP
          | UBcn p => if reg_params_valid p then Ok (with_bcn a (reg_with_params (a_bcn a) p)) else Err ERR_APP
          | UStr v => if str_params_valid v
                      then Ok (with_str a (a_bank a) {| s_valfee := v; s_streams := s_streams (a_str a) |})
                      else Err ERR_APP
          end
      end
  end.

Fixpoint msg_depth (m : msg) : nat :=
  match m with
  | MExec _ inner => S (fold_right (fun i acc => Nat.max (msg_depth i) acc) O inner)
  | _ => 1
  end.

Record tx := {
  tx_msgs : list msg;
  tx_fee : list coin;
  tx_granter : option addr;       (* fee granter, if set *)
  tx_sig_ok : bool                (* every required signature present, valid, right sequence *)
}.

Definition tx_fuel (t : tx) : nat := S (fold_right (fun i acc => Nat.max (msg_depth i) acc) O (tx_msgs t)).

(* FeePayer() = first signer of the first message *)
Definition tx_payer (t : tx) : addr :=
  match tx_msgs t with m :: _ => msg_signer m | [] => BAD_ADDR end.

(* ---- the fee decorators of x/wrkchain/ante and x/beacon/ante (identical up to renaming) ---- *)

Definition ERR_FEE_DENOM : Z := 50.
Definition ERR_FEE_INSUFFICIENT : Z := 51.
Definition ERR_FEE_TOO_MUCH : Z := 52.
Definition ERR_FEE_FUNDS : Z := 53.
Definition ERR_FEE_MAX_STORAGE : Z := ERR_REG_MAX.
Definition PANIC_NEGFEE : Z := 55.

Section RegAnte.
  Variable pick : msg -> option reg_msg.      (* the module's own top-level messages *)
  Variable rs : reg_state.

  Definition own_msgs (t : tx) : list reg_msg :=
    fold_right (fun m acc => match pick m with Some r => r :: acc | None => acc end) [] (tx_msgs t).

  (* checkXFees *)
  Definition check_fees (t : tx) : outcome unit :=
    let p := r_params rs in
    if negb (existsb (fun c => fst c =? rp_denom p) (tx_fee t)) then Err ERR_FEE_DENOM else
    if existsb (fun r => match r with RPurchase _ _ n => two63 <=? n | _ => false end) (own_msgs t)
    then Panic PANIC_NEGFEE                       (* sdk.NewInt(int64(numSlots)) negative: NewCoin panics *)
    else
      let expected := sumZ (map (reg_fee_of p) (own_msgs t)) in
      let sent := fee_amount_of (tx_fee t) (rp_denom p) in
      if sent <? expected then Err ERR_FEE_INSUFFICIENT
      else if expected <? sent then Err ERR_FEE_TOO_MUCH
      else Ok tt.

  (* checkFeePayerHasFunds: liquid + locked must cover the fee in the module's fee denomination *)
  Definition payer_has_funds (b : bank) (e : ent_state) (t : tx) : outcome unit :=
    let p := r_params rs in
    if negb (coins_valid (tx_fee t)) then Err ERR_APP else
    match fee_find (tx_fee t) (rp_denom p) with
    | None => Panic PANIC_NILCOIN
    | Some fee =>
        let locked := locked_coin e (tx_payer t) in
        let potential := balance b (tx_payer t) (fst fee) + (if fst locked =? fst fee then snd locked else 0) in
        if potential <? snd fee then Err ERR_FEE_FUNDS else Ok tt
    end.

  (* checkXMaxSlots: per registration, the sum of requested slots (uint64, with the code's
     "want == 0 means first sight" quirk) must not exceed what can still be purchased *)
  Definition max_slots_table (t : tx) : amap Z (Z * Z) :=
    fold_left (fun tbl r =>
                 match r with
                 | RPurchase _ id n =>
                     match aget id tbl with
                     | Some (mx, want) =>
                         if want =? 0 then aset id (max_purchasable rs id, n) tbl
                         else aset id (mx, wrap64 (want + n)) tbl
                     | None => aset id (max_purchasable rs id, n) tbl
                     end
                 | _ => tbl
                 end) (own_msgs t) [].

  Definition check_max_slots (t : tx) : outcome unit :=
    if existsb (fun kv => fst (snd kv) <? snd (snd kv)) (max_slots_table t) then Err ERR_FEE_MAX_STORAGE else Ok tt.

  Definition reg_ante (check : bool) (b : bank) (e : ent_state) (t : tx) : outcome unit :=
    match own_msgs t with
    | [] => Ok tt
    | _ =>
        do _ <- (if check then check_fees t else Ok tt);
        do _ <- payer_has_funds b e t;
        check_max_slots t
    end.
End RegAnte.

Definition pick_wrk (m : msg) : option reg_msg := match m with MWrk r => Some r | _ => None end.
Definition pick_bcn (m : msg) : option reg_msg := match m with MBcn r => Some r | _ => None end.

Definition is_registry_tx (t : tx) : bool :=
  existsb (fun m => match m with MWrk _ | MBcn _ => true | _ => false end) (tx_msgs t).

(* x/enterprise/ante CheckLockedUndDecorator *)
Definition unlock_ante (a : app) (t : tx) : outcome app :=
  if is_registry_tx t && (0 <? snd (locked_coin (a_ent a) (tx_payer t))) then
    do (b', e') <- unlock_for_fees (a_bank a) (a_ent a) (tx_payer t) (tx_fee t);
    Ok (with_ent a b' e')
  else Ok a.

(* x/auth DeductFeeDecorator: the granter pays when one is set and an allowance exists *)
Definition deduct_fee (a : app) (t : tx) : outcome app :=
  do payer <- match tx_granter t with
              | None => Ok (tx_payer t)
              | Some g =>
                  if g =? tx_payer t then Ok g else
                  if existsb (fun x => (fst x =? g) && (snd x =? tx_payer t)) (a_allow a) then Ok g
                  else Err ERR_APP
              end;
  match tx_fee t with
  | [] => Ok a
  | fee =>
      if negb (can_afford (a_bank a) payer fee) then Err ERR_INSUFFICIENT else
      do b' <- send_coins (a_bank a) payer FEE_COLLECTOR fee;
      Ok (with_bank a b')
  end.

(* the ante chain, in the order of ante/ante.go *)
Definition ante (check : bool) (a : app) (t : tx) : outcome app :=
  if negb (coins_valid (tx_fee t)) then Err ERR_APP else
  do _ <- reg_ante pick_wrk (a_wrk a) check (a_bank a) (a_ent a) t;
  do _ <- reg_ante pick_bcn (a_bcn a) check (a_bank a) (a_ent a) t;
  do a1 <- unlock_ante a t;
  do a2 <- deduct_fee a1 t;
  if tx_sig_ok t then Ok a2 else Err ERR_BAD_SIG.

Definition validate_all (t : tx) : outcome unit :=
  match tx_msgs t with
  | [] => Err ERR_APP
  | ms => fold_left (fun acc m => do _ <- acc; validate_basic (tx_fuel t) m) ms (Ok tt)
  end.

Definition exec_all (a : app) (t : tx) : outcome app :=
  fold_left (fun acc m => do a1 <- acc; exec_msg (tx_fuel t) a1 m) (tx_msgs t) (Ok a).

(* result classes the harness can observe *)
Inductive tx_result :=
| TxOk
| TxRejected (code : Z)        (* failed before execution: nothing changed *)
| TxFailed (code : Z)          (* a message failed: only the ante effects persist *)
| TxPanicked (stage : Z) (code : Z).

(* runTx in deliver mode *)
Definition deliver_tx (a : app) (t : tx) : app * tx_result :=
  match validate_all t with
  | Err c => (a, TxRejected c)
  | Panic c => (a, TxPanicked 0 c)
  | Ok _ =>
      match ante false a t with
      | Err c => (a, TxRejected c)
      | Panic c => (a, TxPanicked 1 c)
      | Ok a1 =>
          match exec_all a1 t with
          | Ok a2 => (a2, TxOk)
          | Err c => (a1, TxFailed c)
          | Panic c => (a1, TxPanicked 2 c)
          end
      end
  end.

(* runTx in check mode: ante only, on the check state *)
Definition check_tx (a : app) (t : tx) : app * tx_result :=
  match validate_all t with
  | Err c => (a, TxRejected c)
  | Panic c => (a, TxPanicked 0 c)
  | Ok _ =>
      match ante true a t with
      | Err c => (a, TxRejected c)
      | Panic c => (a, TxPanicked 1 c)
      | Ok a1 => (a1, TxOk)
      end
  end.

(* BeginBlock: enterprise blocker, then distribution sweeps the fee collector (all denominations
   it holds: the model moves what the fee collector holds in the denominations it knows) *)
Definition sweep_fees (b : bank) : bank :=
  fold_left (fun acc kv =>
               let '((a, d), _) := kv in
               if a =? FEE_COLLECTOR then
                 match bank_send acc FEE_COLLECTOR DISTR_MACC d (balance acc FEE_COLLECTOR d) with
                 | Ok b' => b' | _ => acc end
               else acc) (bal b) b.

Definition begin_block (a : app) (now : Z) : option app :=
  let a0 := with_time a now in
  match ent_begin_block (unix now) (a_bank a0) (a_ent a0) with
  | Ok (b', e') => Some (with_ent a0 (sweep_fees b') e')
  | _ => None
  end.

(* EndBlock: governance executes the messages of each passed proposal atomically, as the gov account *)
Definition exec_proposal (a : app) (ms : list msg) : app :=
  match fold_left (fun acc m => do a1 <- acc; exec_msg (S (S (msg_depth m))) a1 m) ms (Ok a) with
  | Ok a' => a'
  | _ => a
  end.

Definition end_block (a : app) (proposals : list (list msg)) : app :=
  fold_left exec_proposal proposals a.

(* ---- node: committed / deliver / check states ---- *)
Record node := {
  n_committed : app;
  n_deliver : option app;       (* Some during a block *)
  n_check : app
}.

Inductive op :=
| OpBegin (now : Z)
| OpDeliver (t : tx)
| OpCheck (t : tx)
| OpEnd (proposals : list (list msg))
| OpCommit
| OpCrash.                     (* process dies; reopened from the database *)

Definition node_step (n : node) (o : op) : option (node * option tx_result) :=
  match o with
  | OpBegin now =>
      match begin_block (n_committed n) now with
      | Some a => Some ({| n_committed := n_committed n; n_deliver := Some a; n_check := n_check n |}, None)
      | None => None
      end
  | OpDeliver t =>
      match n_deliver n with
      | Some a => let '(a', r) := deliver_tx a t in
                  Some ({| n_committed := n_committed n; n_deliver := Some a'; n_check := n_check n |}, Some r)
      | None => None
      end
  | OpCheck t =>
      let '(c', r) := check_tx (n_check n) t in
      Some ({| n_committed := n_committed n; n_deliver := n_deliver n; n_check := c' |}, Some r)
  | OpEnd props =>
      match n_deliver n with
      | Some a => Some ({| n_committed := n_committed n; n_deliver := Some (end_block a props); n_check := n_check n |}, None)
      | None => None
      end
  | OpCommit =>
      match n_deliver n with
      | Some a => Some ({| n_committed := a; n_deliver := None; n_check := a |}, None)
      | None => None
      end
  | OpCrash =>
      Some ({| n_committed := n_committed n; n_deliver := None; n_check := n_committed n |}, None)
  end.
