(* Vocabulary for the theorems that tie the GENERATED fee check of the WRKChain ante decorator (go_CheckIsWrkChainTx,
   go_checkWrkchainFees in GeneratedWrkchainKeeper.v, from x/wrkchain/exported/exported.go and x/wrkchain/ante/ante.go) to
   the model's [check_fees] (model/App.v).  Definitions only. *)
From MC Require Import lib.Prelude lib.AMap lib.GoSdk GeneratedWrkchainTypes model.Bank model.Registry model.App
  model.WrkchainKeeperPrims GeneratedWrkchainKeeper model.WrkchainGenSpec.

(* a model message as the sdk.Msg the decorator sees: WRKChain messages as their structs, everything else opaque *)
Definition anymsg_of (m : msg) : go_anymsg :=
  match m with
  | MWrk (RRegister owner moniker name genesis type) =>
      AM_MsgRegisterWrkChain {| MsgRegisterWrkChain_Moniker := moniker; MsgRegisterWrkChain_Name := name;
                                MsgRegisterWrkChain_GenesisHash := genesis; MsgRegisterWrkChain_BaseType := type;
                                MsgRegisterWrkChain_Owner := owner |}
  | MWrk (RRecord owner id key hashes) =>
      AM_MsgRecordWrkChainBlock {| MsgRecordWrkChainBlock_WrkchainId := id; MsgRecordWrkChainBlock_Height := key;
              MsgRecordWrkChainBlock_BlockHash := hash_at 0 hashes; MsgRecordWrkChainBlock_ParentHash := hash_at 1 hashes;
              MsgRecordWrkChainBlock_Hash1 := hash_at 2 hashes; MsgRecordWrkChainBlock_Hash2 := hash_at 3 hashes;
              MsgRecordWrkChainBlock_Hash3 := hash_at 4 hashes; MsgRecordWrkChainBlock_Owner := owner |}
  | MWrk (RPurchase owner id n) =>
      AM_MsgPurchaseWrkChainStateStorage {| MsgPurchaseWrkChainStateStorage_WrkchainId := id;
              MsgPurchaseWrkChainStateStorage_Number := n; MsgPurchaseWrkChainStateStorage_Owner := owner |}
  | _ => AM_Other (msg_type m)
  end.

Definition gotx_of (t : tx) : go_tx :=
  {| Tx_Msgs := map anymsg_of (tx_msgs t); Tx_Fee := tx_fee t; Tx_FeePayer := tx_payer t |}.
