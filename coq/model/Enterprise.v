(* Model of x/enterprise: purchase orders (msg_server.go, purchase.go), the BeginBlocker
   (blocker.go: ProcessAcceptedPurchaseOrders then TallyPurchaseOrderDecisions), the locked /
   spent eFUND books (locked.go) and the fee-unlock rule used by the ante decorator.
   Coins carry their denomination explicitly because sdk.Coin.Add panics on a mismatch
   (that is the listed C14 class: governance changing the denomination mid-flight). *)
From MC Require Import lib.Prelude lib.AMap model.Bank.

Definition BAD_ADDR : addr := -999.     (* a string that does not parse as a bech32 address *)
Definition EMPTY_ADDR : addr := -100.   (* the empty string (= go_zero_addr of lib/GoSdk.v): sdk.AccAddressFromBech32("") is an error too *)
Definition addr_parses (a : addr) : bool := negb (a =? BAD_ADDR) && negb (a =? EMPTY_ADDR).

Record ent_params := {
  ep_denom : denom;              (* < 0 encodes a malformed / blank denomination *)
  ep_min_accepts : Z;            (* uint64 *)
  ep_time_limit : Z;             (* DecisionTimeLimit, uint64 seconds *)
  ep_signers : list addr         (* strings.Split(EntSigners, ",") decoded; [] = empty string *)
}.

(* Params.Validate (after fix D4: unsigned comparison) *)
Definition ent_params_valid (p : ent_params) : bool :=
  (0 <=? ep_denom p) && (0 <? ep_min_accepts p) && (0 <? ep_time_limit p)
  && negb (Nat.eqb (List.length (ep_signers p)) 0)
  && forallb addr_parses (ep_signers p)
  && (ep_min_accepts p <=? Z.of_nat (List.length (ep_signers p))).

Definition ST_NIL : Z := 0.
Definition ST_RAISED : Z := 1.
Definition ST_ACCEPTED : Z := 2.
Definition ST_REJECTED : Z := 3.
Definition ST_COMPLETED : Z := 4.

Record decision := { d_signer : addr; d_decision : Z; d_time : Z }.

Record po := {
  po_id : Z;
  po_purchaser : addr;
  po_denom : denom;
  po_amount : Z;
  po_status : Z;
  po_raise_time : Z;
  po_completion_time : Z;
  po_decisions : list decision
}.

Definition coin := (denom * Z)%type.

Record ent_state := {
  e_params : ent_params;
  e_next : Z;                         (* HighestPurchaseOrderID *)
  e_pos : amap Z po;
  e_raisedq : list Z;                 (* raised queue, ascending id = store order *)
  e_acceptedq : list Z;
  e_wl : list addr;                   (* whitelist *)
  e_locked : amap addr coin;
  e_spent : amap addr coin;
  e_totlocked : option coin;          (* None = key absent: reads as 0 of the current denom *)
  e_totspent : option coin
}.

Definition with_pos (s : ent_state) pos rq aq : ent_state :=
  {| e_params := e_params s; e_next := e_next s; e_pos := pos; e_raisedq := rq; e_acceptedq := aq;
     e_wl := e_wl s; e_locked := e_locked s; e_spent := e_spent s;
     e_totlocked := e_totlocked s; e_totspent := e_totspent s |}.

Definition with_books (s : ent_state) locked spent tl ts : ent_state :=
  {| e_params := e_params s; e_next := e_next s; e_pos := e_pos s; e_raisedq := e_raisedq s;
     e_acceptedq := e_acceptedq s; e_wl := e_wl s; e_locked := locked; e_spent := spent;
     e_totlocked := tl; e_totspent := ts |}.

Definition mem_addr (a : addr) (l : list addr) : bool := existsb (Z.eqb a) l.
Definition remove_z (x : Z) (l : list Z) : list Z := filter (fun y => negb (y =? x)) l.

(* reads with the "absent = zero coin of the current denomination" defaults *)
Definition locked_coin (s : ent_state) (a : addr) : coin :=
  match aget a (e_locked s) with Some c => c | None => (ep_denom (e_params s), 0) end.
Definition spent_coin (s : ent_state) (a : addr) : coin :=
  match aget a (e_spent s) with Some c => c | None => (ep_denom (e_params s), 0) end.
Definition total_locked (s : ent_state) : coin :=
  match e_totlocked s with Some c => c | None => (ep_denom (e_params s), 0) end.
Definition total_spent (s : ent_state) : coin :=
  match e_totspent s with Some c => c | None => (ep_denom (e_params s), 0) end.

Definition PANIC_DENOM : Z := 20.        (* "invalid coin denominations" from Coin.Add / Sub *)
Definition PANIC_BLOCKER : Z := 21.      (* explicit panic(...) sites of blocker.go *)
Definition PANIC_NILCOIN : Z := 22.      (* SafeSub of a zero-value Coin (nil Int) *)

(* sdk.Coin.Add: panics when denominations differ *)
Definition coin_add (c : coin) (d : coin) : outcome coin :=
  if fst c =? fst d then Ok (fst c, snd c + snd d) else Panic PANIC_DENOM.

Inductive ent_msg :=
| ERaise (purchaser : addr) (d : denom) (amt : Z)
| EDecide (signer : addr) (poid : Z) (decision : Z)
| EWhitelist (signer : addr) (target : addr) (action : Z).

Definition ERR_ENT : Z := 30.
Definition ERR_ENT_UNAUTH : Z := 31.
Definition ERR_ENT_NOT_WL : Z := 32.
Definition ERR_ENT_ALREADY : Z := 33.
Definition ERR_ENT_STATUS : Z := 34.

Definition ent_validate_basic (m : ent_msg) : outcome unit :=
  match m with
  | ERaise _ d amt => if (d <? 0) || (amt <=? 0) then Err ERR_ENT else Ok tt
  | EDecide _ poid dec =>
      if poid =? 0 then Err ERR_ENT else
      if (dec =? ST_ACCEPTED) || (dec =? ST_REJECTED) then Ok tt else Err ERR_ENT
  | EWhitelist _ _ act => if (act =? 1) || (act =? 2) then Ok tt else Err ERR_ENT
  end.

Definition is_signer (s : ent_state) (a : addr) : bool := mem_addr a (ep_signers (e_params s)).

(* message server; [now] = block time in unix seconds *)
Definition ent_exec (now : Z) (s : ent_state) (m : ent_msg) : outcome (ent_state * Z (* response: po id or 0 *)) :=
  match m with
  | ERaise p d amt =>
      if negb (d =? ep_denom (e_params s)) then Err ERR_ENT else
      if amt <=? 0 then Err ERR_ENT else
      if negb (mem_addr p (e_wl s)) then Err ERR_ENT_NOT_WL else
      let id := e_next s in
      let o := {| po_id := id; po_purchaser := p; po_denom := d; po_amount := amt; po_status := ST_RAISED;
                  po_raise_time := now; po_completion_time := 0; po_decisions := [] |} in
      Ok ({| e_params := e_params s; e_next := id + 1; e_pos := aset id o (e_pos s);
             e_raisedq := e_raisedq s ++ [id]; e_acceptedq := e_acceptedq s; e_wl := e_wl s;
             e_locked := e_locked s; e_spent := e_spent s;
             e_totlocked := e_totlocked s; e_totspent := e_totspent s |}, id)
  | EDecide sg poid dec =>
      if negb (is_signer s sg) then Err ERR_ENT_UNAUTH else
      match aget poid (e_pos s) with
      | None => Err ERR_ENT
      | Some o =>
          if negb ((dec =? ST_ACCEPTED) || (dec =? ST_REJECTED)) then Err ERR_ENT else
          if po_status o =? ST_NIL then Err ERR_ENT_STATUS else
          if negb (po_status o =? ST_RAISED) then Err ERR_ENT_STATUS else
          if existsb (fun d => d_signer d =? sg) (po_decisions o) then Err ERR_ENT_ALREADY else
          let o' := {| po_id := po_id o; po_purchaser := po_purchaser o; po_denom := po_denom o;
                       po_amount := po_amount o; po_status := po_status o; po_raise_time := po_raise_time o;
                       po_completion_time := po_completion_time o;
                       po_decisions := po_decisions o ++ [{| d_signer := sg; d_decision := dec; d_time := now |}] |} in
          Ok (with_pos s (aset poid o' (e_pos s)) (e_raisedq s) (e_acceptedq s), 0)
      end
  | EWhitelist sg target act =>
      if negb (is_signer s sg) then Err ERR_ENT_UNAUTH else
      if negb ((act =? 1) || (act =? 2)) then Err ERR_ENT else
      if act =? 1 then
        if mem_addr target (e_wl s) then Err ERR_ENT_ALREADY
        else Ok ({| e_params := e_params s; e_next := e_next s; e_pos := e_pos s; e_raisedq := e_raisedq s;
                    e_acceptedq := e_acceptedq s; e_wl := e_wl s ++ [target]; e_locked := e_locked s;
                    e_spent := e_spent s; e_totlocked := e_totlocked s; e_totspent := e_totspent s |}, 0)
      else
        if mem_addr target (e_wl s)
        then Ok ({| e_params := e_params s; e_next := e_next s; e_pos := e_pos s; e_raisedq := e_raisedq s;
                    e_acceptedq := e_acceptedq s; e_wl := remove_z target (e_wl s); e_locked := e_locked s;
                    e_spent := e_spent s; e_totlocked := e_totlocked s; e_totspent := e_totspent s |}, 0)
        else Err ERR_ENT
  end.

Definition ent_signer (m : ent_msg) : addr :=
  match m with ERaise p _ _ => p | EDecide sg _ _ => sg | EWhitelist sg _ _ => sg end.

(* ---- locked / spent books ---- *)

(* incrementLockedUnd *)
Definition increment_locked (s : ent_state) (a : addr) (c : coin) : outcome ent_state :=
  do l <- coin_add (locked_coin s a) c;
  if snd l <? 0 then Err ERR_ENT else
  do t <- coin_add (total_locked s) c;
  Ok (with_books s (aset a l (e_locked s)) (e_spent s) (Some t) (e_totspent s)).

(* Coins{x}.SafeSub(c): "has negative" when the denominations differ and c > 0, or x < c *)
Definition safesub_neg (x c : coin) : bool :=
  if fst x =? fst c then snd x <? snd c else (0 <? snd c) || (snd x <? 0).

(* decrementLockedUnd *)
Definition decrement_locked (s : ent_state) (a : addr) (c : coin) : outcome ent_state :=
  let l := locked_coin s a in
  do l' <- (if safesub_neg l c then Ok (ep_denom (e_params s), 0)
            else if fst l =? fst c then Ok (fst l, snd l - snd c) else Panic PANIC_DENOM);
  let tl := total_locked s in
  do t' <- (if safesub_neg tl c then Ok (ep_denom (e_params s), 0)
            else if fst tl =? fst c then Ok (fst tl, snd tl - snd c) else Panic PANIC_DENOM);
  Ok (with_books s (aset a l' (e_locked s)) (e_spent s) (Some t') (e_totspent s)).

(* incrementSpentEFUND *)
Definition increment_spent (s : ent_state) (a : addr) (c : coin) : outcome ent_state :=
  do sp <- coin_add (spent_coin s a) c;
  do ts <- coin_add (total_spent s) c;
  Ok (with_books s (e_locked s) (aset a sp (e_spent s)) (e_totlocked s) (Some ts)).

(* MintCoinsAndLock: mint to the module, send to the recipient, delegate back, book as locked *)
Definition mint_and_lock (b : bank) (s : ent_state) (a : addr) (c : coin) : outcome (bank * ent_state) :=
  if snd c =? 0 then Ok (b, s) else
  do b1 <- bank_mint b ENT_MACC (fst c) (snd c);
  do b2 <- bank_send_m2a b1 ENT_MACC a (fst c) (snd c);
  do b3 <- bank_send b2 a ENT_MACC (fst c) (snd c);       (* DelegateCoinsFromAccountToModule, base account *)
  do s1 <- increment_locked s a c;
  Ok (b3, s1).

Definition fee_amount_of (fee : list coin) (d : denom) : Z :=
  sumZ (map (fun c => if fst c =? d then snd c else 0) fee).
Definition fee_find (fee : list coin) (d : denom) : option coin :=
  find (fun c => fst c =? d) fee.

(* undelegate every coin of [cs] from the module account to [a] *)
Fixpoint undelegate_all (b : bank) (a : addr) (cs : list coin) : outcome bank :=
  match cs with
  | [] => Ok b
  | c :: r => do b1 <- bank_send b ENT_MACC a (fst c) (snd c); undelegate_all b1 a r
  end.

(* UnlockCoinsForFees (called by the ante decorator for WRKChain/BEACON txs of payers with locked eFUND) *)
Definition unlock_for_fees (b : bank) (s : ent_state) (payer : addr) (fee : list coin) : outcome (bank * ent_state) :=
  let d := ep_denom (e_params s) in
  let locked := locked_coin s payer in
  let fee_nund := (d, fee_amount_of fee d) in
  match fee_find fee d with
  | None => Panic PANIC_NILCOIN
  | Some fee_to_pay =>
      if negb (safesub_neg locked fee_to_pay) then
        do b1 <- undelegate_all b payer fee;
        do s1 <- decrement_locked s payer fee_nund;
        do s2 <- increment_spent s1 payer fee_nund;
        Ok (b1, s2)
      else
        let spendable := balance b payer (fst fee_to_pay) in
        let potentially := if fst locked =? fst fee_to_pay then spendable + snd locked else spendable in
        if negb (potentially <? snd fee_to_pay) then
          do b1 <- bank_send b ENT_MACC payer (fst locked) (snd locked);
          do s1 <- decrement_locked s payer locked;
          do s2 <- increment_spent s1 payer locked;
          Ok (b1, s2)
        else Ok (b, s)
  end.

(* ---- BeginBlocker ---- *)

Definition set_po_status (o : po) (st now : Z) (set_completion : bool) : po :=
  {| po_id := po_id o; po_purchaser := po_purchaser o; po_denom := po_denom o; po_amount := po_amount o;
     po_status := st; po_raise_time := po_raise_time o;
     po_completion_time := if set_completion then now else po_completion_time o;
     po_decisions := po_decisions o |}.

(* ProcessAcceptedPurchaseOrders over the ids read before the loop *)
Fixpoint process_accepted (ids : list Z) (b : bank) (s : ent_state) : outcome (bank * ent_state) :=
  match ids with
  | [] => Ok (b, s)
  | id :: rest =>
      match aget id (e_pos s) with
      | None => Panic PANIC_BLOCKER
      | Some o =>
          if negb (po_status o =? ST_ACCEPTED) then Panic PANIC_BLOCKER else
          let s1 := with_pos s (aset id (set_po_status o ST_COMPLETED 0 false) (e_pos s)) (e_raisedq s) (e_acceptedq s) in
          if negb (addr_parses (po_purchaser o)) then Panic PANIC_BLOCKER else
          match mint_and_lock b s1 (po_purchaser o) (po_denom o, po_amount o) with
          | Ok (b2, s2) =>
              process_accepted rest b2 (with_pos s2 (e_pos s2) (e_raisedq s2) (remove_z id (e_acceptedq s2)))
          | Err _ => Panic PANIC_BLOCKER            (* panic(err) *)
          | Panic c => Panic c
          end
      end
  end.

Definition count_decisions (ds : list decision) (v : Z) : Z :=
  Z.of_nat (List.length (filter (fun d => d_decision d =? v) ds)).

(* the tally rule for one raised order: Some new-status, or None = leave it raised *)
Definition tally_one (p : ent_params) (now : Z) (o : po) : option Z :=
  let acc := count_decisions (po_decisions o) ST_ACCEPTED in
  let rej := count_decisions (po_decisions o) ST_REJECTED in
  let min_i := i64_of (ep_min_accepts p) in                               (* int(MinAccepts) *)
  let threshold := Z.of_nat (List.length (ep_signers p)) - min_i in           (* len(signers) - int(MinAccepts) *)
  let time_diff := wrap64 (now - po_raise_time o) in                     (* uint64 subtraction *)
  if (ep_time_limit p <=? time_diff) && (acc <? min_i) then Some ST_REJECTED
  else if threshold <? rej then Some ST_REJECTED
  else if min_i <=? acc then Some ST_ACCEPTED
  else None.

Fixpoint tally (ids : list Z) (now : Z) (s : ent_state) : outcome ent_state :=
  match ids with
  | [] => Ok s
  | id :: rest =>
      match aget id (e_pos s) with
      | None => Panic PANIC_BLOCKER
      | Some o =>
          if negb (po_status o =? ST_RAISED) then Panic PANIC_BLOCKER else
          match tally_one (e_params s) now o with
          | None => tally rest now s
          | Some st =>
              let pos := aset id (set_po_status o st now true) (e_pos s) in
              let rq := remove_z id (e_raisedq s) in
              let aq := if st =? ST_ACCEPTED then e_acceptedq s ++ [id] else e_acceptedq s in
              tally rest now (with_pos s pos rq aq)
          end
      end
  end.

(* BeginBlocker = ProcessAcceptedPurchaseOrders ; TallyPurchaseOrderDecisions *)
Definition ent_begin_block (now : Z) (b : bank) (s : ent_state) : outcome (bank * ent_state) :=
  do (b1, s1) <- process_accepted (e_acceptedq s) b s;
  do s2 <- tally (e_raisedq s1) now s1;
  Ok (b1, s2).

(* SetParams via MsgUpdateParams *)
Definition ent_set_params (s : ent_state) (p : ent_params) : outcome ent_state :=
  if ent_params_valid p
  then Ok {| e_params := p; e_next := e_next s; e_pos := e_pos s; e_raisedq := e_raisedq s;
             e_acceptedq := e_acceptedq s; e_wl := e_wl s; e_locked := e_locked s; e_spent := e_spent s;
             e_totlocked := e_totlocked s; e_totspent := e_totspent s |}
  else Err ERR_ENT.

(* ---- supply queries (grpc_query.go / locked.go) ---- *)
Definition PANIC_NEG : Z := 23.
Definition PANIC_UINT64 : Z := 24.
(* SupplyOf(denom): bank supply minus total locked for the enterprise denomination *)
Definition q_supply_of (b : bank) (s : ent_state) (d : denom) : outcome Z :=
  if d =? ep_denom (e_params s) then
    let tl := total_locked s in
    if negb (fst tl =? d) then Panic PANIC_DENOM else
    if supply_of b d <? snd tl then Panic PANIC_NEG else Ok (supply_of b d - snd tl)
  else Ok (supply_of b d).

(* EnterpriseSupply: (locked, unlocked, total) as uint64 — Uint64() panics above 2^64-1 *)
Definition q_ent_supply (b : bank) (s : ent_state) : outcome (Z * Z * Z) :=
  let d := ep_denom (e_params s) in
  let total := supply_of b d in
  let tl := total_locked s in
  if negb (fst tl =? d) then Panic PANIC_DENOM else
  if total <? snd tl then Panic PANIC_NEG else
  if (two64 <=? total) || (two64 <=? snd tl) then Panic PANIC_UINT64 else Ok (snd tl, total - snd tl, total).
