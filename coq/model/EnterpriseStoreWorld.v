(* The world of the SECOND rendering of the x/enterprise keeper, begin blocker and message server
   (GeneratedEnterpriseKeeperOnStore.v): the same Go code as GeneratedEnterpriseKeeper.v, but its store primitives are
   the GENERATED store accessors (GeneratedEnterpriseStore.v) over the byte-keyed store (model/KVStore.v).  Adapters only:
     os_ent_X = the go_st_ accessor the Go code calls under that name, with an abstract address argument embedded
     into its bytes (esw_emb: what bech32 decoding of the message field yields) and the accessors' two conversion
     parameters instantiated from the world (owner string -> bytes: the embedding, refused for a string that does not
     parse, exactly as ent_AccAddressFromBech32; bytes -> owner string: esw_unemb).
   One adapter is not a bare accessor: GetParamEntSignersAsAddressArray (params.go: the entries of the signer list that
   decode to a non-empty address) is written out over go_st_GetParamEntSigners.  The x/bank primitives are those of
   EnterpriseKeeperPrims.v over the bank component.
   proofs/GeneratedEnterpriseOnStoreEq.v proves that this rendering simulates the one over the primitives. *)
From Coq Require Import NArith.
From MC Require Import lib.Prelude lib.AMap lib.GoSdk GeneratedEnterpriseTypes model.Bank model.Enterprise model.Keys model.KVStore
  model.StoreCodecPrims GeneratedEnterpriseStore.
From MC Require Export model.EnterpriseKeeperPrims.

Record esworld := mk_esworld { esw_emb : addr -> list N; esw_unemb : list N -> addr; esw_now : Z; esw_bank : bank;
                               esw_store : okv enterprise_val }.
Definition with_esbank (w : esworld) (b : bank) : esworld := mk_esworld (esw_emb w) (esw_unemb w) (esw_now w) b (esw_store w).
Definition with_esstore (w : esworld) (s : okv enterprise_val) : esworld := mk_esworld (esw_emb w) (esw_unemb w) (esw_now w) (esw_bank w) s.
Definition os_ew_now (w : esworld) : Z := esw_now w.

Definition es_bech (w : esworld) (a : go_addr) : outcome (list N) := if addr_parses a then Ok (esw_emb w a) else Err ERR_ENT.
Definition lift_es (w : esworld) (o : outcome (okv enterprise_val * unit)) : outcome (esworld * unit) :=
  do x <- o; Ok (with_esstore w (fst x), tt).

(* ---- books ---- *)
Definition os_ent_GetLockedUndForAccount (w : esworld) (a : addr) := go_st_GetLockedUndForAccount (esw_unemb w) (esw_store w) (esw_emb w a).
Definition os_ent_SetLockedUndForAccount (w : esworld) (l : go_LockedUnd) := lift_es w (go_st_SetLockedUndForAccount (es_bech w) (esw_store w) l).
Definition os_ent_GetTotalLockedUnd (w : esworld) := go_st_GetTotalLockedUnd (esw_store w).
Definition os_ent_SetTotalLockedUnd (w : esworld) (c : go_coin) := lift_es w (go_st_SetTotalLockedUnd (esw_store w) c).
Definition os_ent_GetSpentEFUNDForAccount (w : esworld) (a : addr) := go_st_GetSpentEFUNDForAccount (esw_unemb w) (esw_store w) (esw_emb w a).
Definition os_ent_SetSpentEFUNDForAccount (w : esworld) (l : go_SpentEFUND) := lift_es w (go_st_SetSpentEFUNDForAccount (es_bech w) (esw_store w) l).
Definition os_ent_GetTotalSpentEFUND (w : esworld) := go_st_GetTotalSpentEFUND (esw_store w).
Definition os_ent_SetTotalSpentEFUND (w : esworld) (c : go_coin) := lift_es w (go_st_SetTotalSpentEFUND (esw_store w) c).
Definition os_ent_GetParamDenom (w : esworld) := go_st_GetParamDenom (esw_store w).

(* ---- purchase orders, queues, counter, whitelist, parameters ---- *)
Definition os_ent_GetAllRaisedPurchaseOrders (w : esworld) := go_st_GetAllRaisedPurchaseOrders (esw_store w).
Definition os_ent_GetAllAcceptedPurchaseOrders (w : esworld) := go_st_GetAllAcceptedPurchaseOrders (esw_store w).
Definition os_ent_GetParams (w : esworld) := go_st_GetParams (esw_store w).
Definition os_ent_GetPurchaseOrder (w : esworld) (id : Z) := go_st_GetPurchaseOrder (esw_store w) id.
Definition os_ent_SetPurchaseOrder (w : esworld) (g : go_EnterpriseUndPurchaseOrder) := lift_es w (go_st_SetPurchaseOrder (esw_store w) g).
Definition os_ent_RemovePurchaseOrderFromRaisedQueue (w : esworld) (id : Z) := lift_es w (go_st_RemovePurchaseOrderFromRaisedQueue (esw_store w) id).
Definition os_ent_RemovePurchaseOrderFromAcceptedQueue (w : esworld) (id : Z) := lift_es w (go_st_RemovePurchaseOrderFromAcceptedQueue (esw_store w) id).
Definition os_ent_AddPoToAcceptedQueue (w : esworld) (id : Z) := lift_es w (go_st_AddPoToAcceptedQueue (esw_store w) id).
Definition os_ent_AddPoToRaisedQueue (w : esworld) (id : Z) := lift_es w (go_st_AddPoToRaisedQueue (esw_store w) id).
Definition os_ent_GetHighestPurchaseOrderID (w : esworld) := go_st_GetHighestPurchaseOrderID (esw_store w).
Definition os_ent_SetHighestPurchaseOrderID (w : esworld) (n : Z) := lift_es w (go_st_SetHighestPurchaseOrderID (esw_store w) n).
Definition os_ent_GetParamEntSignersAsAddressArray (w : esworld) : outcome (list addr) :=
  do l <- go_st_GetParamEntSigners (esw_store w); Ok (filter addr_parses l).
Definition os_ent_PurchaseOrderExists (w : esworld) (id : Z) := go_st_PurchaseOrderExists (esw_store w) id.
Definition os_ent_AddressIsWhitelisted (w : esworld) (a : addr) := go_st_AddressIsWhitelisted (esw_store w) (esw_emb w a).
Definition os_ent_AddAddressToWhitelist (w : esworld) (a : addr) := lift_es w (go_st_AddAddressToWhitelist (esw_store w) (esw_emb w a)).
Definition os_ent_RemoveAddressFromWhitelist (w : esworld) (a : addr) := lift_es w (go_st_RemoveAddressFromWhitelist (esw_store w) (esw_emb w a)).
Definition os_ent_SetParams (w : esworld) (p : go_Params) := lift_es w (go_st_SetParams (esw_store w) p).

(* ---- x/bank: as in EnterpriseKeeperPrims.v, over the bank component ---- *)
Definition os_bank_MintCoins (w : esworld) (macc : addr) (cs : list go_coin) : outcome (esworld * unit) :=
  do b <- mint_all (esw_bank w) macc cs; Ok (with_esbank w b, tt).
Definition os_bank_SendCoinsFromModuleToAccount (w : esworld) (macc to : addr) (cs : list go_coin) : outcome (esworld * unit) :=
  if blocked to then Err ERR_UNAUTHORIZED
  else do b <- send_all (esw_bank w) macc to cs; Ok (with_esbank w b, tt).
Definition os_bank_DelegateCoinsFromAccountToModule (w : esworld) (a macc : addr) (cs : list go_coin) : outcome (esworld * unit) :=
  do b <- send_all (esw_bank w) a macc cs; Ok (with_esbank w b, tt).
Definition os_bank_UndelegateCoinsFromModuleToAccount (w : esworld) (macc a : addr) (cs : list go_coin) : outcome (esworld * unit) :=
  do b <- send_all (esw_bank w) macc a cs; Ok (with_esbank w b, tt).
Definition os_bank_SpendableCoins (w : esworld) (a : addr) : outcome (list go_coin) :=
  Ok (map (fun kv => (snd (fst kv), snd kv)) (filter (fun kv => (fst (fst kv) =? a) && (0 <? snd kv)) (bal (esw_bank w)))).

(* ---- genesis (x/enterprise/genesis.go) ---- *)
(* the four export listings: the generated accessors (the whitelist one spells each address through esw_unemb) *)
Definition os_ent_GetAllPurchaseOrders (w : esworld) := go_st_GetAllPurchaseOrders (esw_store w).
Definition os_ent_GetAllLockedUnds (w : esworld) := go_st_GetAllLockedUnds (esw_store w).
Definition os_ent_GetAllSpentEFUNDs (w : esworld) := go_st_GetAllSpentEFUNDs (esw_store w).
Definition os_ent_GetAllWhitelistedAddresses (w : esworld) := go_st_GetAllWhitelistedAddresses (esw_unemb w) (esw_store w).
(* the module account and x/bank's GetAllBalances / x/auth's SetModuleAccount: as in EnterpriseKeeperPrims.v, over the
   bank component (readers return an outcome in this rendering) *)
Definition os_ent_GetEnterpriseAccount (w : esworld) : outcome go_modacc := Ok (Some ENT_MACC).
Definition os_bank_GetAllBalances (w : esworld) (a : addr) : outcome (list go_coin) := os_bank_SpendableCoins w a.
Definition os_acc_SetModuleAccount (w : esworld) (m : go_modacc) : outcome (esworld * unit) := Ok (w, tt).
