(* Callback-driven executable model of cosmos-sdk v0.47.13 query.FilteredPaginate
   (filtered_pagination.go:18-121): the same control flow as model/Paginate.v ([key_loop], [offset_loop],
   [filtered_paginate]), but instead of an abstract filter and a result list collected by the loop
   itself, the loops call the handler's CALLBACK
        onResult func(key, value []byte, accumulate bool) (hit bool, err error)
   exactly where the SDK code calls it, with the [accumulate] flag the SDK computes there, and thread
   the callback's captured state (the handler's result slice).

   No proofs in this file (proofs/PaginateCallbackEq.v: driven by a "filter-append" callback these
   loops are model/Paginate.v's with the callback's filter).

   CALLBACK.  [cb : V -> bool -> S -> outcome (S * bool)]: [cb v accumulate st] is onResult applied
   to the stored value [v] (the module callbacks never look at the key; "decoding" is the identity,
   the store holds decoded values as in model/Paginate.v) in captured state [st]; the result is the
   new captured state and the hit flag.  [Err c] / [Panic c] of the callback abort the whole
   FilteredPaginate with that error ("if err != nil { return nil, err }"), the captured state is then
   irrelevant (the handlers return (nil, err)).

   WHERE accumulate IS TRUE.
     key mode    (len(key) != 0):  onResult(iterator.Key(), iterator.Value(), true) - always true; the
                 call is made only for the items visited before numHits reaches limit (the test
                 "if numHits == limit { nextKey = iterator.Key(); break }" comes first).
     offset mode:                  accumulate := numHits >= offset && numHits < end, with end :=
                 offset + limit (uint64, wrapping) and numHits the number of hits reported by the
                 callback so far (before this call).  The callback is called for EVERY item visited,
                 also with accumulate = false (to count hits for NextKey / Total).

   Everything else (request, iterator, uint64 arithmetic, error and panic codes) is model/Paginate.v's. *)
From MC Require Import lib.Prelude model.Paginate.
From Coq Require Import NArith.
Local Open Scope N_scope.

(* the result of FilteredPaginate as the handler sees it: its own captured state + the PageResponse *)
Record page_res_cb (S : Type) := {
  cres_state : S;                (* the handler's result slice after the last callback call *)
  cres_next_key : option N;      (* PageResponse.NextKey, None = nil *)
  cres_total : N }.              (* PageResponse.Total (0 when not set) *)
Arguments cres_state {S} _.
Arguments cres_next_key {S} _.
Arguments cres_total {S} _.

(* ---- key mode (filtered_pagination.go:45-77) -------------------------------------------------- *)
(*   for ; iterator.Valid(); iterator.Next() {
       if numHits == limit { nextKey = iterator.Key(); break }
       if iterator.Error() != nil { return nil, iterator.Error() }
       hit, err := onResult(iterator.Key(), iterator.Value(), true)
       if err != nil { return nil, err }
       if hit { numHits++ } }
     return &PageResponse{NextKey: nextKey}, nil                                                    *)
Fixpoint key_loop_cb {V S} (cb : V -> bool -> S -> outcome (S * bool)) (limit : N)
         (seq : list (N * V)) (numHits : N) (st : S) : outcome (S * option N) :=
  match seq with
  | [] => Ok (st, None)
  | x :: rest =>
      if numHits =? limit then Ok (st, Some (fst x))
      else
        do (st', h) <- cb (snd x) true st;
        key_loop_cb cb limit rest (if h then u64 (numHits + 1) else numHits) st'
  end.

(* ---- offset mode (filtered_pagination.go:79-120) ---------------------------------------------- *)
(*   end := offset + limit
     for ; iterator.Valid(); iterator.Next() {
       if iterator.Error() != nil { return nil, iterator.Error() }
       accumulate := numHits >= offset && numHits < end
       hit, err := onResult(iterator.Key(), iterator.Value(), accumulate)
       if err != nil { return nil, err }
       if hit { numHits++ }
       if numHits == end+1 {
         if nextKey == nil { nextKey = iterator.Key() }
         if !countTotal { break } } }
     res := &PageResponse{NextKey: nextKey}
     if countTotal { res.Total = numHits }
   Result of the loop: (captured state, nextKey, final numHits).                                    *)
Fixpoint offset_loop_cb {V S} (cb : V -> bool -> S -> outcome (S * bool)) (offset end_ end1 : N)
         (countTotal : bool) (seq : list (N * V)) (numHits : N) (nextKey : option N) (st : S)
  : outcome (S * option N * N) :=
  match seq with
  | [] => Ok (st, nextKey, numHits)
  | x :: rest =>
      let accumulate := (offset <=? numHits) && (numHits <? end_) in
      do (st', h) <- cb (snd x) accumulate st;
      let numHits' := if h then u64 (numHits + 1) else numHits in
      let at_end := numHits' =? end1 in
      let nextKey' :=
        if at_end then match nextKey with None => Some (fst x) | Some _ => nextKey end
        else nextKey in
      if at_end && negb countTotal
      then Ok (st', nextKey', numHits')
      else offset_loop_cb cb offset end_ end1 countTotal rest numHits' nextKey' st'
  end.

(* ---- FilteredPaginate(prefixStore, pageRequest, onResult), the callback's captured state being
        [st0] at the call --------------------------------------------------------------------------- *)
Definition filtered_paginate_cb {V S} (items : list (N * V)) (cb : V -> bool -> S -> outcome (S * bool))
           (req : page_req) (st0 : S) : outcome (page_res_cb S) :=
  let offset := pr_offset req in
  let limit := eff_limit req in
  let countTotal := eff_count_total req in
  let key_not_nil := match pr_key req with KeyNil => false | _ => true end in
  if (0 <? offset) && key_not_nil then Err pg_err_both
  else
    match pr_key req with
    | KeyAt k =>
        do seq <- iter_seq items (Some k) (pr_reverse req);
        do (st, nk) <- key_loop_cb cb limit seq 0 st0;
        Ok {| cres_state := st; cres_next_key := nk; cres_total := 0 |}
    | _ =>
        do seq <- iter_seq items None (pr_reverse req);
        let end_ := u64 (offset + limit) in
        do (st, nk, n) <- offset_loop_cb cb offset end_ (u64 (end_ + 1)) countTotal seq 0 None st0;
        Ok {| cres_state := st; cres_next_key := nk; cres_total := if countTotal then n else 0 |}
    end.

(* ---- a gRPC list handler: `var xs []T` (nil slice), FilteredPaginate with the callback appending
        to xs, response {xs, pageRes} ---------------------------------------------------------------- *)
Definition list_query_cb {V} (items : list (N * V)) (cb : V -> bool -> list V -> outcome (list V * bool))
           (req : page_req) : outcome (page_res_cb (list V)) :=
  filtered_paginate_cb items cb req [].

(* what the model's page looks like to the handler: the values without the store keys *)
Definition page_of_model {V} (r : page_res V) : page_res_cb (list V) :=
  {| cres_state := map snd (res_items r); cres_next_key := res_next_key r; cres_total := res_total r |}.

Definition omap {A B} (f : A -> B) (o : outcome A) : outcome B :=
  match o with Ok a => Ok (f a) | Err c => Err c | Panic c => Panic c end.

(* ---- clients paging to the end, against a callback-driven handler (cf. follow_keys /
        follow_offsets of model/Paginate.v); the result is the concatenation of the pages ---------- *)
Fixpoint follow_keys_cb {V} (fuel : nat) (items : list (N * V))
         (cb : V -> bool -> list V -> outcome (list V * bool)) (limit : N) (reverse : bool)
         (key : page_key) : list V :=
  match fuel with
  | O => []
  | Datatypes.S f =>
      match list_query_cb items cb
              {| pr_key := key; pr_offset := 0; pr_limit := limit;
                 pr_count_total := false; pr_reverse := reverse |} with
      | Ok r =>
          cres_state r ++
          match cres_next_key r with
          | None => []
          | Some k => follow_keys_cb f items cb limit reverse (KeyAt k)
          end
      | _ => []
      end
  end.

Definition all_pages_by_key_cb {V} (fuel : nat) (items : list (N * V)) cb (limit : N) : list V :=
  follow_keys_cb fuel items cb limit false KeyNil.
Definition all_pages_by_key_rev_cb {V} (fuel : nat) (items : list (N * V)) cb (limit : N) : list V :=
  follow_keys_cb fuel items cb limit true KeyNil.

Fixpoint follow_offsets_cb {V} (fuel : nat) (items : list (N * V))
         (cb : V -> bool -> list V -> outcome (list V * bool)) (limit : N) (reverse : bool)
         (offset : N) : list V :=
  match fuel with
  | O => []
  | Datatypes.S f =>
      match list_query_cb items cb
              {| pr_key := KeyNil; pr_offset := offset; pr_limit := limit;
                 pr_count_total := false; pr_reverse := reverse |} with
      | Ok r =>
          cres_state r ++
          match cres_next_key r with
          | None => []
          | Some _ => follow_offsets_cb f items cb limit reverse (u64 (offset + limit))
          end
      | _ => []
      end
  end.

Definition all_pages_by_offset_cb {V} (fuel : nat) (items : list (N * V)) cb (limit : N) : list V :=
  follow_offsets_cb fuel items cb limit false 0.
Definition all_pages_by_offset_rev_cb {V} (fuel : nat) (items : list (N * V)) cb (limit : N) : list V :=
  follow_offsets_cb fuel items cb limit true 0.
