(* Model of x/wrkchain and x/beacon: the two modules are the same registry up to
   (a) how a record's key is chosen (wrkchain: the caller's height, which must exceed the
       last one; beacon: last timestamp id + 1) and
   (b) how the new lowest key is found after pruning (wrkchain: first key left in the
       store; beacon: first + 1),
   so the model is written once, parametric in [heighted].
   Message integers (ids, heights, counts, submit times) are uint64 on the wire: the model
   takes them as Z in [0, 2^64).  Counters advanced by one per transaction (next id,
   number in state, timestamp ids) are unbounded Z: reaching 2^64 needs 2^64 transactions. *)
From MC Require Import lib.Prelude lib.AMap model.Bank.

Record reg_params := {
  rp_fee_register : Z;
  rp_fee_record : Z;
  rp_fee_purchase : Z;
  rp_denom : denom;           (* < 0 encodes a malformed / blank denomination string *)
  rp_default_limit : Z;
  rp_max_limit : Z
}.

(* Params.Validate *)
Definition reg_params_valid (p : reg_params) : bool :=
  (0 <=? rp_denom p) && (0 <? rp_fee_register p) && (0 <? rp_fee_record p) && (0 <? rp_fee_purchase p)
  && (0 <? rp_default_limit p) && (0 <? rp_max_limit p) && (rp_default_limit p <=? rp_max_limit p).

Record registration := {
  rg_id : Z;
  rg_owner : addr;
  rg_moniker : string;
  rg_name : string;
  rg_genesis : string;     (* wrkchain only; "" for beacon *)
  rg_type : string;        (* wrkchain only *)
  rg_last : Z;             (* Lastblock / LastTimestampId *)
  rg_num : Z;              (* NumBlocks / NumInState *)
  rg_lowest : Z;           (* LowestHeight / FirstIdInState *)
  rg_regtime : Z
}.

Record record := {
  rc_key : Z;                   (* height / timestamp id *)
  rc_hashes : list string;      (* wrkchain: blockhash,parenthash,hash1,hash2,hash3 ; beacon: hash *)
  rc_time : Z                   (* SubTime (block time, unix s) / SubmitTime (message field) *)
}.

Record reg_state := {
  r_params : reg_params;
  r_next : Z;                                 (* Highest*ID: the id the next registration gets *)
  r_regs : amap Z registration;
  r_limits : amap Z Z;                        (* per-registration in-state limit *)
  r_recs : amap (Z * Z) record                (* key (id, height / timestamp id) *)
}.

Definition with_regs (s : reg_state) regs limits recs : reg_state :=
  {| r_params := r_params s; r_next := r_next s; r_regs := regs; r_limits := limits; r_recs := recs |}.

Definition MODULE_DEFAULT_LIMIT : Z := 50000.   (* types.DefaultStorageLimit, returned when no limit is stored *)

Definition limit_of (s : reg_state) (id : Z) : Z :=
  match aget id (r_limits s) with Some l => l | None => MODULE_DEFAULT_LIMIT end.

(* first key left in the store for [id] (KVStorePrefixIteratorPaginated(prefix, 1, 1)); 0 if none *)
Fixpoint lowest_key (id : Z) (recs : amap (Z * Z) record) : Z :=
  match recs with
  | [] => 0
  | ((i, h), _) :: r =>
      let rest := lowest_key id r in
      if i =? id then (if (rest =? 0) || (h <? rest) then h else rest) else rest
  end.

Inductive reg_msg :=
| RRegister (owner : addr) (moniker name genesis type : string)
| RRecord (owner : addr) (id key : Z) (hashes : list string)    (* key: height (wrkchain) / submit time (beacon) *)
| RPurchase (owner : addr) (id n : Z).

Definition ERR_REG : Z := 10.          (* any error of the module: compared as one class *)
Definition ERR_REG_NOT_OWNER : Z := 11.
Definition ERR_REG_UNKNOWN : Z := 12.
Definition ERR_REG_HEIGHT : Z := 13.
Definition ERR_REG_MAX : Z := 54.   (* types.ErrExceedsMaxStorage: the same error the ante decorator returns *)

Definition too_long (n : nat) (s : string) : bool := Nat.ltb n (String.length s).
Definition is_empty (s : string) : bool := Nat.eqb (String.length s) 0.

Section Registry.
  Variable heighted : bool.     (* true = wrkchain, false = beacon *)

  Definition reg_validate_basic (m : reg_msg) : outcome unit :=
    match m with
    | RRegister _ moniker name genesis _ =>
        if heighted then
          if is_empty moniker then Err ERR_REG else
          if too_long 128 name then Err ERR_REG else
          if too_long 64 moniker then Err ERR_REG else
          if too_long 66 genesis then Err ERR_REG else Ok tt
        else
          if is_empty moniker || is_empty name then Err ERR_REG else
          if too_long 128 name then Err ERR_REG else
          if too_long 64 moniker then Err ERR_REG else Ok tt
    | RRecord _ id key hashes =>
        if id =? 0 then Err ERR_REG else
        if is_empty (hd EmptyString hashes) then Err ERR_REG else
        if key =? 0 then Err ERR_REG else       (* height / submit time must not be zero *)
        if existsb (too_long 66) hashes then Err ERR_REG else Ok tt
    | RPurchase _ id n =>
        if id =? 0 then Err ERR_REG else
        if n =? 0 then Err ERR_REG else Ok tt
    end.

  (* RecordNewWrkchainHashes / RecordNewBeaconTimestamp *)
  Definition record_new (now_unix : Z) (s : reg_state) (rg : registration) (key : Z) (hashes : list string)
    : reg_state * Z (* record key used *) * Z (* pruned key, 0 if none *) :=
    let id := rg_id rg in
    let k := if heighted then key else rg_last rg + 1 in
    let rc := {| rc_key := k; rc_hashes := hashes; rc_time := if heighted then now_unix else key |} in
    let recs1 := aset (id, k) rc (r_recs s) in
    let last' := if heighted then k else (if rg_last rg <? k then k else rg_last rg) in
    let num1 := rg_num rg + 1 in
    let del := rg_lowest rg in
    let lowest1 := if rg_lowest rg =? 0 then k else rg_lowest rg in
    let limit := limit_of s id in
    let '(recs2, num2, lowest2, pruned) :=
      if limit <? num1 then
        if heighted then
          if 0 <? del then
            let recs2 := adel (id, del) recs1 in
            (recs2, num1 - 1, lowest_key id recs2, del)
          else (recs1, num1, lowest1, 0)
        else
          (adel (id, lowest1) recs1, num1 - 1, lowest1 + 1, lowest1)
      else (recs1, num1, lowest1, 0) in
    let rg' := {| rg_id := id; rg_owner := rg_owner rg; rg_moniker := rg_moniker rg; rg_name := rg_name rg;
                  rg_genesis := rg_genesis rg; rg_type := rg_type rg;
                  rg_last := last'; rg_num := num2; rg_lowest := lowest2; rg_regtime := rg_regtime rg |} in
    (with_regs s (aset id rg' (r_regs s)) (r_limits s) recs2, k, pruned).

  Inductive reg_resp :=
  | RespRegistered (id : Z)
  | RespRecorded (id key : Z)
  | RespPurchased (id n can_purchase : Z).

  (* GetMaxPurchasableSlots *)
  Definition max_purchasable (s : reg_state) (id : Z) : Z :=
    match aget id (r_limits s) with
    | None => 0
    | Some l => if rp_max_limit (r_params s) <=? l then 0 else rp_max_limit (r_params s) - l
    end.

  (* the message server (after ValidateBasic) *)
  Definition reg_exec (now_unix : Z) (s : reg_state) (m : reg_msg) : outcome (reg_state * reg_resp) :=
    match m with
    | RRegister owner moniker name genesis type =>
        if too_long 128 name then Err ERR_REG else
        if too_long 64 moniker then Err ERR_REG else
        if is_empty moniker then Err ERR_REG else
        let id := r_next s in
        let rg := {| rg_id := id; rg_owner := owner; rg_moniker := moniker; rg_name := name;
                     rg_genesis := if heighted then genesis else EmptyString;
                     rg_type := if heighted then type else EmptyString;
                     rg_last := 0; rg_num := 0; rg_lowest := 0; rg_regtime := now_unix |} in
        Ok ({| r_params := r_params s; r_next := id + 1;
               r_regs := aset id rg (r_regs s);
               r_limits := aset id (rp_default_limit (r_params s)) (r_limits s);
               r_recs := r_recs s |}, RespRegistered id)
    | RRecord owner id key hashes =>
        if heighted && (key =? 0) then Err ERR_REG else
        if existsb (too_long 66) hashes then Err ERR_REG else
        match aget id (r_regs s) with
        | None => Err ERR_REG_UNKNOWN
        | Some rg =>
            if negb (owner =? rg_owner rg) then Err ERR_REG_NOT_OWNER else
            if heighted && negb (rg_last rg <? key) then Err ERR_REG_HEIGHT else
            let '(s', k, _) := record_new now_unix s rg key hashes in
            Ok (s', RespRecorded id k)
        end
    | RPurchase owner id n =>
        if n =? 0 then Err ERR_REG else
        match aget id (r_regs s) with
        | None => Err ERR_REG_UNKNOWN
        | Some rg =>
            if negb (owner =? rg_owner rg) then Err ERR_REG_NOT_OWNER else
            let limit := limit_of s id in
            let maxp := rp_max_limit (r_params s) in
            if (maxp <? n) || (maxp - n <? limit) then Err ERR_REG_MAX else
            let s' := with_regs s (r_regs s) (aset id (limit + n) (r_limits s)) (r_recs s) in
            Ok (s', RespPurchased id n (max_purchasable s' id))
        end
    end.

  Definition reg_signer (m : reg_msg) : addr :=
    match m with RRegister o _ _ _ _ => o | RRecord o _ _ _ => o | RPurchase o _ _ => o end.

  (* ---- queries (grpc_query.go) ---- *)
  Definition q_registration (s : reg_state) (id : Z) : option registration := aget id (r_regs s).
  Definition q_record (s : reg_state) (id key : Z) : option record := aget (id, key) (r_recs s).

  Record storage_info := { si_owner : addr; si_limit : Z; si_used : Z; si_max : Z; si_max_purchasable : Z }.
  Definition q_storage (s : reg_state) (id : Z) : option storage_info :=
    match aget id (r_regs s) with
    | None => None
    | Some rg => Some {| si_owner := rg_owner rg; si_limit := limit_of s id; si_used := rg_num rg;
                         si_max := rp_max_limit (r_params s); si_max_purchasable := max_purchasable s id |}
    end.

  (* the fee the ante decorator expects for one message *)
  Definition reg_fee_of (p : reg_params) (m : reg_msg) : Z :=
    match m with
    | RRegister _ _ _ _ _ => rp_fee_register p
    | RRecord _ _ _ _ => rp_fee_record p
    | RPurchase _ _ n => rp_fee_purchase p * n
    end.

End Registry.
