(* Vocabulary for the theorems that tie the code GENERATED from /repo/x/beacon/keeper (GeneratedBeaconKeeper.v)
   to the hand-written registry model (model/Registry.v, heighted = false).  Definitions only. *)
From MC Require Import lib.Prelude lib.AMap lib.GoSdk GeneratedBeaconTypes model.Bank model.Registry model.RegistrySpec
  model.BeaconKeeperPrims GeneratedBeaconKeeper.

Definition rlift {A} (w : rworld) (o : outcome (reg_state * A)) : outcome (rworld * A) :=
  match o with
  | Ok (s, a) => Ok (with_reg w s, a)
  | Err c => Err c
  | Panic c => Panic c
  end.

(* the generated message server, driven by the model's message type: a BEACON record carries one hash and its
   key field is the submit time; genesis / type of a registration do not exist *)
Definition bcn_msg_exec (w : rworld) (m : reg_msg) : outcome (rworld * reg_resp) :=
  match m with
  | RRegister owner moniker name _ _ =>
      do (w', rsp) <- go_RegisterBeacon w
           {| MsgRegisterBeacon_Moniker := moniker; MsgRegisterBeacon_Name := name; MsgRegisterBeacon_Owner := owner |};
      Ok (w', RespRegistered (MsgRegisterBeaconResponse_BeaconId rsp))
  | RRecord owner id key hashes =>
      do (w', rsp) <- go_RecordBeaconTimestamp w
           {| MsgRecordBeaconTimestamp_BeaconId := id; MsgRecordBeaconTimestamp_Hash := nth 0 hashes EmptyString;
              MsgRecordBeaconTimestamp_SubmitTime := key; MsgRecordBeaconTimestamp_Owner := owner |};
      Ok (w', RespRecorded (MsgRecordBeaconTimestampResponse_BeaconId rsp) (MsgRecordBeaconTimestampResponse_TimestampId rsp))
  | RPurchase owner id n =>
      do (w', rsp) <- go_PurchaseBeaconStateStorage w
           {| MsgPurchaseBeaconStateStorage_BeaconId := id; MsgPurchaseBeaconStateStorage_Number := n;
              MsgPurchaseBeaconStateStorage_Owner := owner |};
      Ok (w', RespPurchased (MsgPurchaseBeaconStateStorageResponse_BeaconId rsp)
                            (MsgPurchaseBeaconStateStorageResponse_NumberPurchased rsp)
                            (MsgPurchaseBeaconStateStorageResponse_NumCanPurchase rsp))
  end.

Definition reg_counters_small (s : reg_state) : Prop :=
  0 <= r_next s < two64 - 1 /\
  0 <= rp_max_limit (r_params s) < two64 /\ 0 <= rp_default_limit (r_params s) < two64 /\
  (forall id l, aget id (r_limits s) = Some l -> 0 <= l < two64) /\
  (forall id rg, aget id (r_regs s) = Some rg ->
     0 <= rg_num rg < two64 - 1 /\ 0 <= rg_last rg < two64 - 1 /\ 0 <= rg_lowest rg < two64 - 1).
