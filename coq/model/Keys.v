(* Byte-level model of the store keys of the four custom modules.

   Specification read from (and to be kept in step with):
     /repo/x/enterprise/types/keys.go
     /repo/x/wrkchain/types/keys.go
     /repo/x/beacon/types/keys.go
     /repo/x/stream/types/keys.go
     /repo/x/stream/keeper/query_streams.go, /repo/x/stream/keeper/stream.go
     cosmos-sdk v0.47.13: types/address/store_key.go (LengthPrefix),
       types/utils.go (ParseLengthPrefixedBytes), store/prefix/store.go (stripPrefix)

   A byte is an [N] below 256; a key is a [list N].
   This file contains definitions only (no proofs) so that it always compiles. *)

From Coq Require Import NArith List Bool Arith.
Import ListNotations.
Open Scope N_scope.

(* ------------------------------------------------------------------ *)
(* uint64, big endian (binary.BigEndian.PutUint64 / Uint64)            *)
(* ------------------------------------------------------------------ *)

(* 8 bytes, most significant first, of n mod 2^64. *)
Definition be64 (n : N) : list N :=
  [ (n / 72057594037927936) mod 256;   (* 2^56 *)
    (n / 281474976710656) mod 256;     (* 2^48 *)
    (n / 1099511627776) mod 256;       (* 2^40 *)
    (n / 4294967296) mod 256;          (* 2^32 *)
    (n / 16777216) mod 256;            (* 2^24 *)
    (n / 65536) mod 256;               (* 2^16 *)
    (n / 256) mod 256;                 (* 2^8  *)
    n mod 256 ].

(* value of a big-endian base-256 digit string, with accumulator *)
Fixpoint de_acc (acc : N) (l : list N) : N :=
  match l with
  | [] => acc
  | b :: r => de_acc (acc * 256 + b) r
  end.

(* binary.BigEndian.Uint64(bz): reads bz[0..7]. Go panics when len bz < 8;
   [de64] is total (it reads the bytes that are there), [de64_checked]
   records the panic as None. *)
Definition de64 (l : list N) : N := de_acc 0 (firstn 8 l).

Definition de64_checked (l : list N) : option N :=
  if (length l <? 8)%nat then None else Some (de64 l).

(* ------------------------------------------------------------------ *)
(* byte strings: order of the KV iterator, prefixes                      *)
(* ------------------------------------------------------------------ *)

(* bytes.Compare a b < 0 : the order in which IAVL / the KV store iterate *)
Fixpoint lex_lt (a b : list N) : bool :=
  match a, b with
  | _, [] => false
  | [], _ :: _ => true
  | x :: a', y :: b' => (x <? y) || ((x =? y) && lex_lt a' b')
  end.

(* bytes.HasPrefix k p *)
Fixpoint is_prefix (p k : list N) : bool :=
  match p, k with
  | [], _ => true
  | _ :: _, [] => false
  | x :: p', y :: k' => (x =? y) && is_prefix p' k'
  end.

Fixpoint key_eqb (a b : list N) : bool :=
  match a, b with
  | [], [] => true
  | x :: a', y :: b' => (x =? y) && key_eqb a' b'
  | _, _ => false
  end.

(* prefix.Store iterator: Key() = key[len(prefix):] *)
Definition strip_prefix (p k : list N) : list N := skipn (length p) k.

(* ------------------------------------------------------------------ *)
(* address.MustLengthPrefix                                             *)
(* ------------------------------------------------------------------ *)

(* LengthPrefix: the empty slice is returned unchanged (no length byte!);
   otherwise one byte len(bz) followed by bz. For len(bz) > 255 Go returns an
   error and MustLengthPrefix panics; the model does not truncate the length in
   that case (the value is then not a byte) -- such inputs are excluded by
   [wf_addr]. *)
Definition length_prefix (a : list N) : list N :=
  match a with
  | [] => []
  | _ :: _ => N.of_nat (length a) :: a
  end.

(* ------------------------------------------------------------------ *)
(* enterprise                                                           *)
(* ------------------------------------------------------------------ *)

Inductive ent_key :=
| EkHighestPO                 (* HighestPurchaseOrderIDKey   = {0x20} *)
| EkPO (id : N)               (* PurchaseOrderIDKeyPrefix    = {0x01} ++ be64 id *)
| EkLocked (a : list N)       (* LockedUndAddressKeyPrefix   = {0x02} ++ addr (raw, no length byte) *)
| EkWhitelist (a : list N)    (* WhitelistKeyPrefix          = {0x03} ++ addr (raw) *)
| EkRaised (id : N)           (* RaisedPoPrefix              = {0x04} ++ be64 id *)
| EkAccepted (id : N)         (* AcceptedPoPrefix            = {0x05} ++ be64 id *)
| EkSpent (a : list N)        (* SpentEFUNDAddressKeyPrefix  = {0x06} ++ addr (raw) *)
| EkParams                    (* ParamsKey                   = {0x07} *)
| EkTotalSpent                (* TotalSpentEFUNDKey          = {0x98} *)
| EkTotalLocked.              (* TotalLockedUndKey           = {0x99} *)

Definition ent_prefix_po        : list N := [0x01].
Definition ent_prefix_locked    : list N := [0x02].
Definition ent_prefix_whitelist : list N := [0x03].
Definition ent_prefix_raised    : list N := [0x04].
Definition ent_prefix_accepted  : list N := [0x05].
Definition ent_prefix_spent     : list N := [0x06].

Definition ent_encode (k : ent_key) : list N :=
  match k with
  | EkHighestPO   => [0x20]
  | EkPO id       => 0x01 :: be64 id
  | EkLocked a    => 0x02 :: a
  | EkWhitelist a => 0x03 :: a
  | EkRaised id   => 0x04 :: be64 id
  | EkAccepted id => 0x05 :: be64 id
  | EkSpent a     => 0x06 :: a
  | EkParams      => [0x07]
  | EkTotalSpent  => [0x98]
  | EkTotalLocked => [0x99]
  end.

(* SplitRaisedQueueKey / SplitAcceptedQueueKey (identical bodies):
   key[1:] panics on an empty key; panic unless len(key[1:]) = 8 *)
Definition split_queue_key (key : list N) : option N :=
  match key with
  | [] => None
  | _ :: rest => if (length rest =? 8)%nat then Some (de64 rest) else None
  end.

(* ------------------------------------------------------------------ *)
(* wrkchain and beacon (same layout, same prefix bytes, separate stores) *)
(* ------------------------------------------------------------------ *)

Inductive reg_key :=
| RkHighestId                 (* Highest{WrkChain,Beacon}IDKey            = {0x20} *)
| RkReg (id : N)              (* Registered{WrkChain,Beacon}Prefix        = {0x01} ++ be64 id *)
| RkRecord (id h : N)         (* Recorded{WrkChainBlockHash,BeaconTimestamp}Prefix = {0x02} ++ be64 id ++ be64 h *)
| RkLimit (id : N)            (* {WrkChain,Beacon}StorageLimitPrefix      = {0x03} ++ be64 id *)
| RkParams.                   (* ParamsKey                                = {0x04} *)

Definition reg_encode (k : reg_key) : list N :=
  match k with
  | RkHighestId   => [0x20]
  | RkReg id      => 0x01 :: be64 id
  | RkRecord id h => 0x02 :: be64 id ++ be64 h
  | RkLimit id    => 0x03 :: be64 id
  | RkParams      => [0x04]
  end.

Definition wrk_encode : reg_key -> list N := reg_encode.
Definition bcn_encode : reg_key -> list N := reg_encode.

(* iterated in Go: regs (KVStorePrefixIterator, prefix.NewStore),
   records_of id (forward, paginated and reverse prefix iterators).
   records_all and limits are never iterated by the keepers; they are the
   section prefixes. *)
Definition wrk_prefix_regs        : list N := [0x01].
Definition wrk_prefix_records_all : list N := [0x02].
Definition wrk_prefix_records_of (id : N) : list N := 0x02 :: be64 id.   (* WrkChainAllBlocksKey *)
Definition wrk_prefix_limits      : list N := [0x03].

Definition bcn_prefix_regs        : list N := [0x01].
Definition bcn_prefix_records_all : list N := [0x02].
Definition bcn_prefix_records_of (id : N) : list N := 0x02 :: be64 id.   (* BeaconAllTimestampsKey *)
Definition bcn_prefix_limits      : list N := [0x03].

(* ------------------------------------------------------------------ *)
(* stream                                                               *)
(* ------------------------------------------------------------------ *)

Inductive str_key :=
| SkParams                                 (* ParamsKey       = {0x01} *)
| SkStream (receiver sender : list N).     (* StreamKeyPrefix = {0x11} ++ lp receiver ++ lp sender *)

Definition str_prefix_all : list N := [0x11].
(* GetStreamsByReceiverKey *)
Definition str_prefix_receiver (r : list N) : list N := 0x11 :: length_prefix r.

Definition str_encode (k : str_key) : list N :=
  match k with
  | SkParams     => [0x01]
  | SkStream r s => 0x11 :: length_prefix r ++ length_prefix s      (* GetStreamKey *)
  end.

(* sdk.ParseLengthPrefixedBytes(key, start, n):
     neededLength := start + n; endIndex := neededLength - 1
     AssertKeyAtLeastLength(key, neededLength)      -- panic -> None
     return key[start:neededLength], endIndex
   The model returns neededLength (= endIndex + 1), which is what every caller
   uses as the next start index. *)
Definition parse_lp (key : list N) (start n : nat) : option (list N * nat) :=
  let needed := (start + n)%nat in
  if (length key <? needed)%nat then None
  else Some (firstn n (skipn start key), needed).

(* AddressesFromStreamKey. [int(receiverAddrLen[0])] is an int conversion of a
   byte: no wrap-around. Trailing bytes after the sender are accepted
   (AssertKeyAtLeastLength). *)
Definition addresses_from_stream_key (key : list N) : option (list N * list N) :=
  match parse_lp key 1 1 with
  | None => None
  | Some (rl, i1) =>
    match rl with
    | [] => None
    | rlen :: _ =>
      match parse_lp key i1 (N.to_nat rlen) with
      | None => None
      | Some (r, i2) =>
        match parse_lp key i2 1 with
        | None => None
        | Some (sl, i3) =>
          match sl with
          | [] => None
          | slen :: _ =>
            match parse_lp key i3 (N.to_nat slen) with
            | None => None
            | Some (s, i4) =>
              if (length key <? i4)%nat then None else Some (r, s)
            end
          end
        end
      end
    end
  end.

(* FirstAddressFromStreamStoreKey (current code, after the fix):
       addrLen := int(key[0])                  -- int conversion, no wrap-around
       return key[1 : 1+addrLen]
   key[0] panics on an empty key. Go checks the upper bound against cap(key);
   the model answers None as soon as it exceeds len(key) (never the case for a
   key built by GetStreamKey). *)
Definition first_address_from_stream_store_key (key : list N) : option (list N) :=
  match key with
  | [] => None
  | addrLen :: _ =>
    let hi := (1 + N.to_nat addrLen)%nat in
    if (hi <=? length key)%nat
    then Some (firstn (hi - 1) (skipn 1 key))
    else None
  end.

(* The code before the fix:
       addrLen := key[0]                       -- a byte (uint8)
       return key[1 : 1+addrLen]
   [1+addrLen] is uint8 arithmetic and wraps modulo 256: for addrLen = 255 the
   upper bound is 0 and key[1:0] panics ("slice bounds out of range [1:0]"). *)
Definition first_address_from_stream_store_key_legacy (key : list N) : option (list N) :=
  match key with
  | [] => None
  | addrLen :: _ =>
    let hi := N.to_nat ((1 + addrLen) mod 256) in
    if (1 <=? hi)%nat && (hi <=? length key)%nat
    then Some (firstn (hi - 1) (skipn 1 key))
    else None
  end.

(* What the three readers of stream keys compute from a full store key [k]:
   - IterateAllStreams (stream.go): AddressesFromStreamKey(iterator.Key())
   - Streams / AllStreamsForSender (query_streams.go):
       store := prefix.NewStore(kv, StreamKeyPrefix); callback key = k[1:]
       AddressesFromStreamKey(append(StreamKeyPrefix, key...))
   - AllStreamsForReceiver:
       store := prefix.NewStore(kv, GetStreamsByReceiverKey(receiver))
       FirstAddressFromStreamStoreKey(key) with key = k[len(prefix):]  *)
Definition iterate_all_streams_addresses (k : list N) : option (list N * list N) :=
  addresses_from_stream_key k.

Definition streams_query_addresses (k : list N) : option (list N * list N) :=
  addresses_from_stream_key (str_prefix_all ++ strip_prefix str_prefix_all k).

Definition receiver_query_sender (receiver k : list N) : option (list N) :=
  first_address_from_stream_store_key (strip_prefix (str_prefix_receiver receiver) k).

(* the same query with the helper as it was before the fix *)
Definition receiver_query_sender_legacy (receiver k : list N) : option (list N) :=
  first_address_from_stream_store_key_legacy (strip_prefix (str_prefix_receiver receiver) k).

(* ------------------------------------------------------------------ *)
(* well-formedness                                                      *)
(* ------------------------------------------------------------------ *)

Definition wf_id (n : N) : bool := n <? 2 ^ 64.

Definition wf_addr (a : list N) : bool :=
  (1 <=? length a)%nat && (length a <=? 255)%nat && forallb (fun b => b <? 256) a.

Definition wf_ent_key (k : ent_key) : bool :=
  match k with
  | EkPO id | EkRaised id | EkAccepted id => wf_id id
  | EkLocked a | EkWhitelist a | EkSpent a => wf_addr a
  | EkHighestPO | EkParams | EkTotalSpent | EkTotalLocked => true
  end.

Definition wf_reg_key (k : reg_key) : bool :=
  match k with
  | RkReg id | RkLimit id => wf_id id
  | RkRecord id h => wf_id id && wf_id h
  | RkHighestId | RkParams => true
  end.

Definition wf_str_key (k : str_key) : bool :=
  match k with
  | SkParams => true
  | SkStream r s => wf_addr r && wf_addr s
  end.

(* ------------------------------------------------------------------ *)
(* a key-value store, as far as C18 needs one                           *)
(* ------------------------------------------------------------------ *)

Definition kv (V : Type) := list N -> option V.
Definition kv_get {V} (st : kv V) (k : list N) : option V := st k.
Definition kv_set {V} (st : kv V) (k : list N) (v : V) : kv V :=
  fun k' => if key_eqb k k' then Some v else st k'.
Definition kv_del {V} (st : kv V) (k : list N) : kv V :=
  fun k' => if key_eqb k k' then None else st k'.
