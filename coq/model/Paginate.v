(* Executable model of cosmos-sdk v0.47.13 types/query:
     FilteredPaginate          (filtered_pagination.go:18-121)
     GenericFilteredPaginate   (filtered_pagination.go:131-255)
     getIterator               (pagination.go:147-161)
   as used by the gRPC list queries of x/enterprise (purchase orders), x/wrkchain, x/beacon
   (FilteredPaginate) and x/stream (GenericFilteredPaginate).

   No proofs in this file.

   STORE.  The prefix store is the list [items : list (N * V)] of (key, value) pairs in ascending
   key order with pairwise different keys, exactly as the forward store iterator yields them.  Keys
   are N: only the order of keys matters to the pagination code, so byte-string keys are mapped
   order-isomorphically to numbers (by the test generator: any strictly monotone map will do, e.g.
   2*rank+1 for stored keys, which leaves room for request keys that are not stored).

   FILTER.  [flt k v = true] iff the callback reports a hit:
     FilteredPaginate:         onResult(key, value, accumulate) returns (true, nil); the module
                               callbacks append the item to their result slice iff hit && accumulate.
     GenericFilteredPaginate:  onResult(key, msg) returns a value with val.Size() != 0 (the stream
                               by-sender query returns a nil *StreamResult for a non-match, whose
                               Size() is 0); the SDK itself appends val iff hit && "accumulate".
   Callback errors / unmarshal errors are outside the model (the stored values always decode).

   REQUEST.  PageRequest{Key, Offset, Limit, CountTotal, Reverse}.  Offset and Limit are uint64:
   the model takes them as N and is faithful for values < 2^64 (it does not reduce its inputs).
   Key has three states because the code tests it twice, differently:
        if offset > 0 && key != nil { return nil, fmt.Errorf("invalid request, either offset or key is expected, got both") }
        ...
        if len(key) != 0 { <key mode> }
   [KeyNil] = nil, [KeyEmpty] = non-nil zero-length slice (what gogoproto produces for an explicitly
   encoded empty bytes field), [KeyAt k] = non-empty key of rank k.

   RESULT.  [outcome (page_res V)] (Prelude): [Ok r], [Err pg_err_both] for the one error the SDK
   code itself raises, [Panic pg_panic_iter] for the panic inside getIterator described below.
   [res_total] is PageResponse.Total (0 when not set).

   ARITHMETIC.  uint64, wrapping: end := offset + limit; end+1; numHits++ are all taken mod 2^64.
   ("end+1" is recomputed by Go at every iteration; it is loop-invariant, the model computes it once
   and passes it to the loop as [end1].)

   DIFFERENCES FilteredPaginate / GenericFilteredPaginate (forward and reverse): none in what is
   observable through this model.  Line by line the two bodies coincide (same error check, same
   limit==0 defaulting, same key loop, same end/offset loop, same nextKey/Total assignment); the only
   differences are (a) who unmarshals and who appends (callback vs. SDK), (b) the hit test
   (returned bool vs. val.Size() != 0), (c) on error GenericFilteredPaginate returns (results|nil,
   nil, err) instead of (nil, err), (d) with zero hits GenericFilteredPaginate returns an empty
   non-nil slice where the module callbacks of FilteredPaginate leave a nil slice (both encode to the
   same protobuf).  Hence [generic_filtered_paginate] is defined as [filtered_paginate].
   NOTE the two *modes* inside each function do differ:
     key mode:     NextKey = key of the item that follows the item carrying the limit-th hit,
                   WHETHER OR NOT it matches the filter ("if numHits == limit { nextKey = iterator.Key(); break }"
                   is tested before the filter is applied); Total is never set; CountTotal ignored.
     offset mode:  NextKey = key of the (offset+limit+1)-th MATCHING item ("if numHits == end+1"
                   is tested after numHits++), Total = number of hits seen if CountTotal.
   (query.Paginate, unfiltered, is not modelled here; it increments its counter before the tests
   and therefore does not have the end+1 = 0 anomaly below.)

   REVERSE is modelled, including the panic of getIterator:
        if reverse { var end []byte
          if start != nil { itr := prefixStore.Iterator(start, nil); defer itr.Close()
                            if itr.Valid() { itr.Next(); end = itr.Key() } }
          return prefixStore.ReverseIterator(nil, end) }
   i.e. with a start key the reverse iteration runs downwards from the first stored key >= start
   (inclusive); if no stored key is >= start it runs over the whole store; if exactly one stored
   key is >= start, itr.Next() invalidates the iterator and itr.Key() panics
   ("prefixIterator invalid, cannot call Key()", store/prefix/store.go:160).
   All of this was cross-checked against the real SDK code on a 7-item MemDB prefix store. *)
From MC Require Import lib.Prelude.
From Coq Require Import NArith.
Local Open Scope N_scope.

Definition two64N : N := 18446744073709551616.
Definition u64 (n : N) : N := n mod two64N.
Definition default_limit : N := 100.          (* query.DefaultLimit *)

Definition pg_err_both : Z := 1%Z.            (* "invalid request, either offset or key is expected, got both" *)
Definition pg_panic_iter : Z := 1%Z.          (* "prefixIterator invalid, cannot call Key()" *)

Inductive page_key := KeyNil | KeyEmpty | KeyAt (k : N).

Record page_req := {
  pr_key : page_key;
  pr_offset : N;
  pr_limit : N;
  pr_count_total : bool;
  pr_reverse : bool }.

Record page_res (V : Type) := {
  res_items : list (N * V);
  res_next_key : option N;      (* None = nil NextKey *)
  res_total : N }.
Arguments res_items {V} _.
Arguments res_next_key {V} _.
Arguments res_total {V} _.

(* the effective limit: "if limit == 0 { limit = DefaultLimit; countTotal = true }" *)
Definition eff_limit (req : page_req) : N :=
  if pr_limit req =? 0 then default_limit else pr_limit req.
Definition eff_count_total (req : page_req) : bool :=
  if pr_limit req =? 0 then true else pr_count_total req.

Definition hit {V} (flt : N -> V -> bool) (kv : N * V) : bool := flt (fst kv) (snd kv).

(* ---- iterators --------------------------------------------------------------------------- *)

(* items with key >= k  (prefixStore.Iterator(k, nil)) *)
Fixpoint drop_lt {V} (k : N) (l : list (N * V)) : list (N * V) :=
  match l with
  | [] => []
  | x :: r => if fst x <? k then drop_lt k r else l
  end.

(* items with key < k, ascending  (the domain of prefixStore.ReverseIterator(nil, k)) *)
Fixpoint take_lt {V} (k : N) (l : list (N * V)) : list (N * V) :=
  match l with
  | [] => []
  | x :: r => if fst x <? k then x :: take_lt k r else []
  end.

(* getIterator(prefixStore, start, reverse): the sequence of items the iterator will yield *)
Definition iter_seq {V} (items : list (N * V)) (start : option N) (reverse : bool)
  : outcome (list (N * V)) :=
  if reverse then
    match start with
    | None => Ok (rev items)
    | Some k =>
        match drop_lt k items with
        | [] => Ok (rev items)                               (* !itr.Valid(): end stays nil *)
        | [_] => Panic pg_panic_iter                         (* itr.Next(); itr.Key() on an invalid iterator *)
        | _ :: y :: _ => Ok (rev (take_lt (fst y) items))    (* end = key after the first key >= start *)
        end
    end
  else
    Ok (match start with None => items | Some k => drop_lt k items end).

(* ---- key mode (filtered_pagination.go:45-77 / 161-201) ------------------------------------- *)
(*   for ; iterator.Valid(); iterator.Next() {
       if numHits == limit { nextKey = iterator.Key(); break }
       hit, err := onResult(iterator.Key(), iterator.Value(), true)
       if hit { numHits++ } }
     return &PageResponse{NextKey: nextKey}                                                     *)
Fixpoint key_loop {V} (flt : N -> V -> bool) (limit : N) (seq : list (N * V)) (numHits : N)
  : list (N * V) * option N :=
  match seq with
  | [] => ([], None)
  | x :: rest =>
      if numHits =? limit then ([], Some (fst x))
      else if hit flt x
           then let '(its, nk) := key_loop flt limit rest (u64 (numHits + 1)) in (x :: its, nk)
           else key_loop flt limit rest numHits
  end.

(* ---- offset mode (filtered_pagination.go:79-120 / 203-254) --------------------------------- *)
(*   end := offset + limit
     for ; iterator.Valid(); iterator.Next() {
       accumulate := numHits >= offset && numHits < end
       hit, err := onResult(iterator.Key(), iterator.Value(), accumulate)
       if hit { numHits++ }
       if numHits == end+1 {
         if nextKey == nil { nextKey = iterator.Key() }
         if !countTotal { break } } }
     res := &PageResponse{NextKey: nextKey}
     if countTotal { res.Total = numHits }
   Result of the loop: (accumulated items, nextKey, final numHits).                              *)
Fixpoint offset_loop {V} (flt : N -> V -> bool) (offset end_ end1 : N) (countTotal : bool)
         (seq : list (N * V)) (numHits : N) (nextKey : option N)
  : list (N * V) * option N * N :=
  match seq with
  | [] => ([], nextKey, numHits)
  | x :: rest =>
      let accumulate := (offset <=? numHits) && (numHits <? end_) in
      let h := hit flt x in
      let numHits' := if h then u64 (numHits + 1) else numHits in
      let emit := h && accumulate in
      let at_end := numHits' =? end1 in
      let nextKey' :=
        if at_end then match nextKey with None => Some (fst x) | Some _ => nextKey end
        else nextKey in
      if at_end && negb countTotal
      then ((if emit then [x] else []), nextKey', numHits')
      else let '(its, nk, n) := offset_loop flt offset end_ end1 countTotal rest numHits' nextKey' in
           ((if emit then x :: its else its), nk, n)
  end.

(* ---- FilteredPaginate ----------------------------------------------------------------------- *)
Definition filtered_paginate {V} (items : list (N * V)) (flt : N -> V -> bool) (req : page_req)
  : outcome (page_res V) :=
  let offset := pr_offset req in
  let limit := eff_limit req in
  let countTotal := eff_count_total req in
  let key_not_nil := match pr_key req with KeyNil => false | _ => true end in
  if (0 <? offset) && key_not_nil then Err pg_err_both
  else
    match pr_key req with
    | KeyAt k =>
        do seq <- iter_seq items (Some k) (pr_reverse req);
        let '(its, nk) := key_loop flt limit seq 0 in
        Ok {| res_items := its; res_next_key := nk; res_total := 0 |}
    | _ =>
        do seq <- iter_seq items None (pr_reverse req);
        let end_ := u64 (offset + limit) in
        let '(its, nk, n) := offset_loop flt offset end_ (u64 (end_ + 1)) countTotal seq 0 None in
        Ok {| res_items := its; res_next_key := nk; res_total := if countTotal then n else 0 |}
    end.

(* GenericFilteredPaginate: same observable behaviour (see the header). *)
Definition generic_filtered_paginate {V} := @filtered_paginate V.

(* ---- clients paging to the end ------------------------------------------------------------- *)

(* first request without key (offset 0), then follow NextKey until it is nil.  A page may be empty
   with a non-nil NextKey (key mode never looks at whether the next item matches; and the wrap case
   below), the client just continues; fuel bounds the walk.  A failing page ends the walk. *)
Fixpoint follow_keys {V} (fuel : nat) (items : list (N * V)) (flt : N -> V -> bool) (limit : N)
         (reverse : bool) (key : page_key) : list (N * V) :=
  match fuel with
  | O => []
  | S f =>
      match filtered_paginate items flt
              {| pr_key := key; pr_offset := 0; pr_limit := limit;
                 pr_count_total := false; pr_reverse := reverse |} with
      | Ok r =>
          res_items r ++
          match res_next_key r with
          | None => []
          | Some k => follow_keys f items flt limit reverse (KeyAt k)
          end
      | _ => []
      end
  end.

Definition all_pages_by_key {V} (fuel : nat) (items : list (N * V)) (flt : N -> V -> bool) (limit : N)
  : list (N * V) := follow_keys fuel items flt limit false KeyNil.
Definition all_pages_by_key_rev {V} (fuel : nat) (items : list (N * V)) (flt : N -> V -> bool) (limit : N)
  : list (N * V) := follow_keys fuel items flt limit true KeyNil.

(* offset 0, limit, 2*limit, ... (the client's own arithmetic, also uint64) while NextKey is non-nil *)
Fixpoint follow_offsets {V} (fuel : nat) (items : list (N * V)) (flt : N -> V -> bool) (limit : N)
         (reverse : bool) (offset : N) : list (N * V) :=
  match fuel with
  | O => []
  | S f =>
      match filtered_paginate items flt
              {| pr_key := KeyNil; pr_offset := offset; pr_limit := limit;
                 pr_count_total := false; pr_reverse := reverse |} with
      | Ok r =>
          res_items r ++
          match res_next_key r with
          | None => []
          | Some _ => follow_offsets f items flt limit reverse (u64 (offset + limit))
          end
      | _ => []
      end
  end.

Definition all_pages_by_offset {V} (fuel : nat) (items : list (N * V)) (flt : N -> V -> bool) (limit : N)
  : list (N * V) := follow_offsets fuel items flt limit false 0.
Definition all_pages_by_offset_rev {V} (fuel : nat) (items : list (N * V)) (flt : N -> V -> bool) (limit : N)
  : list (N * V) := follow_offsets fuel items flt limit true 0.
