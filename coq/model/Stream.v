(* Model of x/stream: the three pure functions of types/utils.go with Go's arithmetic,
   and the keeper/msg-server operations of keeper/stream.go + keeper/msg_server.go
   (as of the fixed tree: integer seconds, big-int products, TruncateInt, addSeconds,
   LastOutflowTime restart on an expired top-up).
   Times are Z nanoseconds since the Unix epoch.  Amounts are unbounded Z (sdk.Int). *)
From MC Require Import lib.Prelude lib.AMap model.Bank.

Definition NS : Z := 1000000000.
Definition DEC_ONE : Z := 1000000000000000000.   (* LegacyDec precision 10^18 *)

Definition unix (t : Z) : Z := t / NS.            (* time.Time.Unix(): floor seconds *)
Definition nanos (t : Z) : Z := t mod NS.         (* time.Time.Nanosecond() *)

(* gogoproto StdTime marshalling accepts years 1..9999 only; MustMarshal panics otherwise *)
Definition TS_MIN : Z := -62135596800.
Definition TS_MAX : Z := 253402300799.
Definition time_storable (t : Z) : bool := (TS_MIN <=? unix t) && (unix t <=? TS_MAX).

(* addSeconds(t, secs) = time.Unix(t.Unix()+secs, t.Nanosecond())   [int64 addition wraps] *)
Definition add_seconds (t secs : Z) : Z := i64_of (unix t + secs) * NS + nanos t.

Definition PANIC_INT64 : Z := 2.     (* "Int64() out of bound" *)
Definition PANIC_MARSHAL : Z := 3.   (* MustMarshal of an unrepresentable time *)
Definition PANIC_NEGCOIN : Z := 4.   (* negative coin amount *)

(* CalculateDuration(deposit, flowRate) : int64 — panics when the quotient is not an int64 *)
Definition calculate_duration (deposit flow_rate : Z) : outcome Z :=
  if flow_rate <=? 0 then Ok 0
  else if 0 <? deposit then
    let q := deposit / flow_rate in
    if q <? two63 then Ok q else Panic PANIC_INT64
  else Ok 0.

(* CalculateAmountToClaim(now, dzt, lot, deposit, rate) = (amountToClaim, remaining) *)
Definition calculate_amount_to_claim (now dzt lot deposit rate : Z) : Z * Z :=
  if dzt <=? now then (deposit, 0)
  else
    let s0 := unix now - unix lot in
    let s1 := if nanos now <? nanos lot then s0 - 1 else s0 in
    let secs := if s1 <? 0 then 0 else s1 in
    let num := secs * rate in
    if num <? deposit then (num, deposit - num) else (deposit, 0).

(* CalculateValidatorFee(valFee (scaled by 10^18), claim) = (receiver part, validator fee) *)
Definition calculate_validator_fee (val_fee claim : Z) : Z * Z :=
  if 0 <? val_fee then
    let fee := (claim * val_fee) / DEC_ONE in
    (claim - fee, fee)
  else (claim, 0).

Record stream := {
  st_denom : denom;
  st_deposit : Z;
  st_rate : Z;
  st_lot : Z;          (* LastOutflowTime *)
  st_dzt : Z;          (* DepositZeroTime *)
  st_cancellable : bool
}.

Record str_state := {
  s_valfee : Z;                               (* params.ValidatorFee * 10^18 *)
  s_streams : amap (addr * addr) stream       (* key: (receiver, sender) *)
}.

Definition with_streams (s : str_state) (m : amap (addr * addr) stream) : str_state :=
  {| s_valfee := s_valfee s; s_streams := m |}.

(* Params.Validate *)
Definition str_params_valid (vf : Z) : bool := (0 <=? vf) && (vf <=? DEC_ONE).

Definition ERR_INVALID_DATA : Z := 2.       (* stream ErrInvalidData and friends, one class *)

(* SetStream: MustMarshal panics on unrepresentable times *)
Definition set_stream (s : str_state) (r sn : addr) (st : stream) : outcome str_state :=
  if time_storable (st_lot st) && time_storable (st_dzt st)
  then Ok (with_streams s (aset (r, sn) st (s_streams s)))
  else Panic PANIC_MARSHAL.

(* result of a claim: receiver amount, validator fee, total, remaining *)
Record claim_res := { cr_receiver : Z; cr_fee : Z; cr_total : Z; cr_remaining : Z }.

(* ClaimFromStream *)
Definition claim_from_stream (now : Z) (b : bank) (s : str_state) (r sn : addr)
  : outcome (bank * str_state * claim_res) :=
  match aget (r, sn) (s_streams s) with
  | None => Err ERR_INVALID_DATA
  | Some st =>
      if st_deposit st <=? 0 then Err ERR_INVALID_DATA else
      let '(total, remaining) :=
        calculate_amount_to_claim now (st_dzt st) (st_lot st) (st_deposit st) (st_rate st) in
      if total <? 0 then Err ERR_INVALID_DATA else
      if st_deposit st <? total then Err ERR_INVALID_DATA else
      let '(recv, fee) := calculate_validator_fee (s_valfee s) total in
      if recv <? 0 then Panic PANIC_NEGCOIN else
      do b1 <- (if 0 <? fee then bank_send b STREAM_MACC FEE_COLLECTOR (st_denom st) fee else Ok b);
      do b2 <- (if 0 <? recv then bank_send_m2a b1 STREAM_MACC r (st_denom st) recv else Ok b1);
      let st' := {| st_denom := st_denom st; st_deposit := remaining; st_rate := st_rate st;
                    st_lot := now; st_dzt := st_dzt st; st_cancellable := st_cancellable st |} in
      do s' <- set_stream s r sn st';
      Ok (b2, s', {| cr_receiver := recv; cr_fee := fee; cr_total := total; cr_remaining := remaining |})
  end.

(* AddDeposit *)
Definition add_deposit (now : Z) (b : bank) (s : str_state) (r sn : addr) (d : denom) (amt : Z)
  : outcome (bank * str_state) :=
  match aget (r, sn) (s_streams s) with
  | None => Err ERR_INVALID_DATA
  | Some st =>
      if negb (d =? st_denom st) then Err ERR_INVALID_DATA else
      do ext <- calculate_duration amt (st_rate st);
      do (b1, s1, st1, dzt) <-
        (if st_dzt st <=? now then
           do (b1, s1) <-
             (if 0 <? st_deposit st then
                do (b1, s1, _) <- claim_from_stream now b s r sn; Ok (b1, s1)
              else Ok (b, s));
           match aget (r, sn) (s_streams s1) with
           | None => Err ERR_INVALID_DATA    (* unreachable: claim keeps the stream *)
           | Some st1 =>
               Ok (b1, s1,
                   {| st_denom := st_denom st1; st_deposit := st_deposit st1; st_rate := st_rate st1;
                      st_lot := now; st_dzt := st_dzt st1; st_cancellable := st_cancellable st1 |},
                   add_seconds now ext)
           end
         else Ok (b, s, st, add_seconds (st_dzt st) ext));
      do b2 <- bank_send b1 sn STREAM_MACC d amt;
      let st2 := {| st_denom := st_denom st1; st_deposit := st_deposit st1 + amt; st_rate := st_rate st1;
                    st_lot := st_lot st1; st_dzt := dzt; st_cancellable := st_cancellable st1 |} in
      do s2 <- set_stream s1 r sn st2;
      Ok (b2, s2)
  end.

(* SetNewFlowRate *)
Definition set_new_flow_rate (now : Z) (b : bank) (s : str_state) (r sn : addr) (rate : Z)
  : outcome (bank * str_state) :=
  match aget (r, sn) (s_streams s) with
  | None => Err ERR_INVALID_DATA
  | Some st =>
      do (b1, s1, st1, dzt) <-
        (if 0 <? st_deposit st then
           do (b1, s1, _) <- claim_from_stream now b s r sn;
           match aget (r, sn) (s_streams s1) with
           | None => Err ERR_INVALID_DATA
           | Some st1 =>
               do dur <- calculate_duration (st_deposit st1) rate;
               Ok (b1, s1, st1, add_seconds now dur)
           end
         else Ok (b, s, st, now));
      let st2 := {| st_denom := st_denom st1; st_deposit := st_deposit st1; st_rate := rate;
                    st_lot := st_lot st1; st_dzt := dzt; st_cancellable := st_cancellable st1 |} in
      do s2 <- set_stream s1 r sn st2;
      Ok (b1, s2)
  end.

(* CancelStreamBySenderReceiver *)
Definition cancel_stream (now : Z) (b : bank) (s : str_state) (r sn : addr)
  : outcome (bank * str_state) :=
  match aget (r, sn) (s_streams s) with
  | None => Err ERR_INVALID_DATA
  | Some st =>
      if negb (st_cancellable st) then Err ERR_INVALID_DATA else
      do (b1, s1) <-
        (if 0 <? st_deposit st then
           do (b1, s1, _) <- claim_from_stream now b s r sn; Ok (b1, s1)
         else Ok (b, s));
      match aget (r, sn) (s_streams s1) with
      | None => Err ERR_INVALID_DATA
      | Some st1 =>
          do b2 <- (if 0 <? st_deposit st1 then bank_send_m2a b1 STREAM_MACC sn (st_denom st1) (st_deposit st1)
                    else Ok b1);
          Ok (b2, with_streams s1 (adel (r, sn) (s_streams s1)))
      end
  end.

(* ---- message level (ValidateBasic + msg server) ---- *)

Inductive str_msg :=
| SCreate (sender receiver : addr) (d : denom) (amt rate : Z)
| SClaim (sender receiver : addr)
| STopUp (sender receiver : addr) (d : denom) (amt : Z)
| SUpdateFlow (sender receiver : addr) (rate : Z)
| SCancel (sender receiver : addr).

Definition str_validate_basic (m : str_msg) : outcome unit :=
  match m with
  | SCreate sn r d amt rate =>
      if amt <=? 0 then Err ERR_INVALID_DATA else
      if rate <? 1 then Err ERR_INVALID_DATA else
      if sn =? r then Err ERR_INVALID_DATA else
      do dur <- calculate_duration amt rate;
      if dur <? 60 then Err ERR_INVALID_DATA else Ok tt
  | SClaim _ _ => Ok tt
  | STopUp _ _ _ amt => if amt <=? 0 then Err ERR_INVALID_DATA else Ok tt
  | SUpdateFlow _ _ rate => if rate <? 1 then Err ERR_INVALID_DATA else Ok tt
  | SCancel _ _ => Ok tt
  end.

(* what the message server returns for the response fields the harness compares *)
Inductive str_resp :=
| RNone
| RClaim (c : claim_res)
| RTopUp (current_deposit dzt : Z).

Definition str_exec (now : Z) (b : bank) (s : str_state) (m : str_msg)
  : outcome (bank * str_state * str_resp) :=
  match m with
  | SCreate sn r d amt rate =>
      if blocked r then Err ERR_UNAUTHORIZED else
      if sn =? r then Err ERR_INVALID_DATA else
      if ahas (r, sn) (s_streams s) then Err ERR_INVALID_DATA else
      if amt <=? 0 then Err ERR_INVALID_DATA else
      if rate <=? 0 then Err ERR_INVALID_DATA else
      do dur <- calculate_duration amt rate;
      if dur <? 60 then Err ERR_INVALID_DATA else
      (* CreateNewStream *)
      do s1 <- set_stream s r sn {| st_denom := d; st_deposit := 0; st_rate := rate; st_lot := now;
                                    st_dzt := 0; st_cancellable := true |};
      do (b2, s2) <- add_deposit now b s1 r sn d amt;
      Ok (b2, s2, RNone)
  | SClaim sn r =>
      if negb (ahas (r, sn) (s_streams s)) then Err ERR_INVALID_DATA else
      do (b1, s1, c) <- claim_from_stream now b s r sn;
      Ok (b1, s1, RClaim c)
  | STopUp sn r d amt =>
      if amt <=? 0 then Err ERR_INVALID_DATA else
      match aget (r, sn) (s_streams s) with
      | None => Err ERR_INVALID_DATA
      | Some st =>
          if negb (d =? st_denom st) then Err ERR_INVALID_DATA else
          do (b1, s1) <- add_deposit now b s r sn d amt;
          match aget (r, sn) (s_streams s1) with
          | Some st1 => Ok (b1, s1, RTopUp (st_deposit st1) (st_dzt st1))
          | None => Ok (b1, s1, RNone)
          end
      end
  | SUpdateFlow sn r rate =>
      if rate <=? 0 then Err ERR_INVALID_DATA else
      if negb (ahas (r, sn) (s_streams s)) then Err ERR_INVALID_DATA else
      do (b1, s1) <- set_new_flow_rate now b s r sn rate;
      Ok (b1, s1, RNone)
  | SCancel sn r =>
      match aget (r, sn) (s_streams s) with
      | None => Err ERR_INVALID_DATA
      | Some st =>
          if negb (st_cancellable st) then Err ERR_INVALID_DATA else
          do (b1, s1) <- cancel_stream now b s r sn;
          Ok (b1, s1, RNone)
      end
  end.

(* the signer GetSigners names for each message *)
Definition str_signer (m : str_msg) : addr :=
  match m with
  | SCreate sn _ _ _ _ => sn
  | SClaim _ r => r
  | STopUp sn _ _ _ => sn
  | SUpdateFlow sn _ _ => sn
  | SCancel sn _ => sn
  end.

(* total of remaining deposits in one denomination (RegisterInvariants: deposits invariant) *)
Definition total_deposits (s : str_state) (d : denom) : Z :=
  asum (fun st => if st_denom st =? d then st_deposit st else 0) (s_streams s).
