(* Specification vocabulary for the enterprise theorems C03 / C04 (definitions only). *)
From MC Require Import lib.Prelude lib.AMap model.Bank model.Enterprise.

(* one step of a module-level history.  A block hook that panics halts the chain: None. *)
Inductive ent_op :=
| OMsg (m : ent_msg)              (* a delivered message that passed signature checks for ent_signer m *)
| OBegin (now : Z)                (* BeginBlock at unix time now *)
| OSetParams (p : ent_params)     (* MsgUpdateParams executed with the governance authority *)
| OUnlock (payer : addr) (fee : list coin).   (* the fee-unlock ante step of an accepted WRKChain/BEACON tx *)

Record ent_world := { w_bank : bank; w_ent : ent_state; w_now : Z }.

Definition ent_step (w : ent_world) (o : ent_op) : option ent_world :=
  match o with
  | OMsg m =>
      match ent_validate_basic m with
      | Ok _ =>
          match ent_exec (w_now w) (w_ent w) m with
          | Ok (s', _) => Some {| w_bank := w_bank w; w_ent := s'; w_now := w_now w |}
          | _ => Some w
          end
      | _ => Some w
      end
  | OBegin now =>
      match ent_begin_block now (w_bank w) (w_ent w) with
      | Ok (b', s') => Some {| w_bank := b'; w_ent := s'; w_now := now |}
      | _ => None
      end
  | OSetParams p =>
      match ent_set_params (w_ent w) p with
      | Ok s' => Some {| w_bank := w_bank w; w_ent := s'; w_now := w_now w |}
      | _ => Some w
      end
  | OUnlock payer fee =>
      match unlock_for_fees (w_bank w) (w_ent w) payer fee with
      | Ok (b', s') => Some {| w_bank := b'; w_ent := s'; w_now := w_now w |}
      | _ => Some w            (* the ante stage failed: its cache is discarded *)
      end
  end.

Fixpoint ent_run (w : ent_world) (h : list ent_op) : option ent_world :=
  match h with
  | [] => Some w
  | o :: r => match ent_step w o with Some w' => ent_run w' r | None => None end
  end.

(* well-formed histories: times never decrease and fit uint64 seconds; signers are ordinary
   accounts; governance does not change the enterprise denomination (the listed C14 class) *)
Definition ent_op_wf (w : ent_world) (o : ent_op) : Prop :=
  match o with
  | OMsg m => 0 <= ent_signer m /\
              match m with
              | ERaise _ _ amt => True
              | EDecide _ poid _ => 0 <= poid < two64
              | EWhitelist _ t _ => 0 <= t
              end
  | OBegin now => w_now w <= now < two63
  | OSetParams p => ep_denom p = ep_denom (e_params (w_ent w))
  | OUnlock payer fee => 0 <= payer /\ Forall (fun c => 0 < snd c) fee /\ NoDup (map fst fee)
  end.

Fixpoint ent_hist_wf (w : ent_world) (h : list ent_op) : Prop :=
  match h with
  | [] => True
  | o :: r => ent_op_wf w o /\ match ent_step w o with Some w' => ent_hist_wf w' r | None => True end
  end.

Definition status_of (s : ent_state) (id : Z) : Z :=
  match aget id (e_pos s) with Some o => po_status o | None => ST_NIL end.

Definition amount_coin (s : ent_state) (a : addr) (m : amap addr coin) : Z :=
  match aget a m with Some c => snd c | None => 0 end.

Definition completed_sum (s : ent_state) (a : addr) : Z :=
  asum (fun o => if (po_status o =? ST_COMPLETED) && (po_purchaser o =? a) then po_amount o else 0) (e_pos s).

(* genesis: empty module state with valid params, nothing locked, empty escrow *)
Definition ent_genesis (p : ent_params) (start_id : Z) (wl : list addr) : ent_state :=
  {| e_params := p; e_next := start_id; e_pos := []; e_raisedq := []; e_acceptedq := []; e_wl := wl;
     e_locked := []; e_spent := []; e_totlocked := None; e_totspent := None |}.
