(* Model of genesis export / import of the four modules (x/*/genesis.go, app/export.go): what the
   exported document contains and how a fresh chain rebuilds its state from it.  The bank and
   auth state travel through the SDK's own genesis (balances, supply) and are carried over as is. *)
From MC Require Import lib.Prelude lib.AMap model.Bank model.Stream model.Registry model.Enterprise model.App.

Definition EXPORT_CAP : Z := 20000.   (* MaxBlockSubmissionsKeepInState / MaxHashSubmissionsToExport *)

Record gen_ent := {
  ge_params : ent_params; ge_start : Z; ge_pos : list po; ge_locked : list (addr * coin);
  ge_totlocked : coin; ge_wl : list addr; ge_totspent : coin; ge_spent : list (addr * coin) }.

Record gen_reg_entry := { gre_reg : registration; gre_limit : Z; gre_recs : list (Z * record) }.
Record gen_reg := { gr_params : reg_params; gr_start : Z; gr_regs : list gen_reg_entry }.

Record gen_str := { gs_valfee : Z; gs_streams : list ((addr * addr) * stream) }.

Record gen_doc := {
  gd_bank : bank; gd_ent : gen_ent; gd_wrk : gen_reg; gd_bcn : gen_reg; gd_str : gen_str;
  gd_grants : list (addr * addr * Z); gd_allow : list (addr * addr); gd_time : Z }.

(* ---- export ---- *)
Definition export_ent (s : ent_state) : gen_ent :=
  {| ge_params := e_params s; ge_start := e_next s; ge_pos := map snd (e_pos s);
     ge_locked := e_locked s; ge_totlocked := total_locked s; ge_wl := e_wl s;
     ge_totspent := total_spent s; ge_spent := e_spent s |}.

Definition records_of (id : Z) (recs : amap (Z * Z) record) : list (Z * record) :=
  map (fun kv => (snd (fst kv), snd kv)) (filter (fun kv => fst (fst kv) =? id) recs).

(* the newest [cap] records (iterated in reverse, prepended) *)
Definition newest {A} (cap : Z) (l : list A) : list A := skipn (Z.to_nat (Z.of_nat (List.length l) - cap)) l.

(* store order of one registration's records is ascending key order: insertion sort by key *)
Fixpoint insert_by_key (x : Z * record) (l : list (Z * record)) : list (Z * record) :=
  match l with
  | [] => [x]
  | y :: r => if fst x <? fst y then x :: l else y :: insert_by_key x r
  end.
Definition sort_by_key (l : list (Z * record)) : list (Z * record) := fold_right insert_by_key [] l.

Definition export_reg (s : reg_state) : gen_reg :=
  {| gr_params := r_params s; gr_start := r_next s;
     gr_regs := map (fun kv =>
                       let rg := snd kv in
                       let blocks := newest EXPORT_CAP (sort_by_key (records_of (rg_id rg) (r_recs s))) in
                       {| gre_reg := {| rg_id := rg_id rg; rg_owner := rg_owner rg; rg_moniker := rg_moniker rg;
                                        rg_name := rg_name rg; rg_genesis := rg_genesis rg; rg_type := rg_type rg;
                                        rg_last := rg_last rg;
                                        rg_num := Z.of_nat (List.length blocks);
                                        rg_lowest := match blocks with [] => 0 | b :: _ => fst b end;
                                        rg_regtime := rg_regtime rg |};
                          gre_limit := limit_of s (rg_id rg); gre_recs := blocks |}) (r_regs s) |}.

Definition export_str (s : str_state) : gen_str := {| gs_valfee := s_valfee s; gs_streams := s_streams s |}.

Definition export_app (a : app) : gen_doc :=
  {| gd_bank := a_bank a; gd_ent := export_ent (a_ent a); gd_wrk := export_reg (a_wrk a);
     gd_bcn := export_reg (a_bcn a); gd_str := export_str (a_str a);
     gd_grants := a_grants a; gd_allow := a_allow a; gd_time := a_now a |}.

(* ---- import (InitGenesis); None = InitChain panics ---- *)
Definition import_ent (b : bank) (g : gen_ent) : option ent_state :=
  let pos := fold_left (fun m o => aset (po_id o) o m) (ge_pos g) [] in
  let rq := map po_id (filter (fun o => po_status o =? ST_RAISED) (ge_pos g)) in
  let aq := map po_id (filter (fun o => po_status o =? ST_ACCEPTED) (ge_pos g)) in
  let s := {| e_params := ge_params g; e_next := ge_start g; e_pos := pos; e_raisedq := rq; e_acceptedq := aq;
              e_wl := ge_wl g;
              e_locked := fold_left (fun m kv => aset (fst kv) (snd kv) m) (ge_locked g) [];
              e_spent := fold_left (fun m kv => aset (fst kv) (snd kv) m) (ge_spent g) [];
              e_totlocked := Some (ge_totlocked g); e_totspent := Some (ge_totspent g) |} in
  if negb (ent_params_valid (ge_params g)) then None else
  (* module balance must equal the recorded holdings *)
  if (balance b ENT_MACC (fst (ge_totlocked g)) =? snd (ge_totlocked g))
     && forallb (fun kv => (snd (fst kv) =? fst (ge_totlocked g)) || negb (fst (fst kv) =? ENT_MACC) || (snd kv =? 0)) (bal b)
  then Some s else None.

Definition import_reg (g : gen_reg) : option reg_state :=
  if negb (reg_params_valid (gr_params g)) then None else
  Some {| r_params := gr_params g; r_next := gr_start g;
          r_regs := fold_left (fun m e => aset (rg_id (gre_reg e)) (gre_reg e) m) (gr_regs g) [];
          r_limits := fold_left (fun m e => aset (rg_id (gre_reg e)) (gre_limit e) m) (gr_regs g) [];
          r_recs := fold_left (fun m e =>
                                 fold_left (fun m2 kr => aset (rg_id (gre_reg e), fst kr) (snd kr) m2) (gre_recs e) m)
                              (gr_regs g) [] |}.

Definition import_str (b : bank) (g : gen_str) : option str_state :=
  if negb (str_params_valid (gs_valfee g)) then None else
  let s := {| s_valfee := gs_valfee g;
              s_streams := fold_left (fun m kv => aset (fst kv) (snd kv) m) (gs_streams g) [] |} in
  (* module balance must equal the sum of deposits, per denomination held or deposited *)
  if forallb (fun kv => negb (fst (fst kv) =? STREAM_MACC) || (snd kv =? total_deposits s (snd (fst kv)))) (bal b)
     && forallb (fun kv => balance b STREAM_MACC (st_denom (snd kv)) =? total_deposits s (st_denom (snd kv))) (gs_streams g)
  then Some s else None.

Definition import_app (d : gen_doc) : option app :=
  match import_ent (gd_bank d) (gd_ent d), import_reg (gd_wrk d), import_reg (gd_bcn d), import_str (gd_bank d) (gd_str d) with
  | Some e, Some w, Some bc, Some s =>
      Some {| a_bank := gd_bank d; a_ent := e; a_wrk := w; a_bcn := bc; a_str := s;
              a_grants := gd_grants d; a_allow := gd_allow d; a_now := gd_time d |}
  | _, _, _, _ => None
  end.

(* export at a block boundary and start a fresh chain from the document *)
Definition reimport_node (n : node) : option node :=
  match n_deliver n with
  | Some _ => None
  | None =>
      match import_app (export_app (n_committed n)) with
      | Some a => Some {| n_committed := a; n_deliver := None; n_check := a |}
      | None => None
      end
  end.
