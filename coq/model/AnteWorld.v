(* The world the translated fee decorators of x/wrkchain/ante and x/beacon/ante (GeneratedWrkchainAnte.v,
   GeneratedBeaconAnte.v: CheckIs*Tx, check*Fees, checkFeePayerHasFunds, check*MaxSlots, AnteHandle) run in, and their
   primitives, described by hand over the model's state.  Trusted:
     - the decorator sees the bank, the enterprise module's locked amounts and ITS OWN module's registry state
       ([aw_reg]: the WRKChain state for the WRKChain decorator, the BEACON state for the BEACON one), the block time and
       whether the context is a CheckTx context;
     - x/auth GetAccount finds an account for every fee payer (a fee payer without an account has no funds: the model
       refuses it for lack of funds, the code with ErrUnknownAddress);
     - x/bank GetAllBalances / SpendableCoins list the positive balances (vesting accounts are not modelled);
     - GetMaxPurchasableSlots is the registry model's [max_purchasable] (the translated keeper function is proved equal
       to it in proofs/Generated{Wrkchain,Beacon}Eq.v under the registry invariant);
     - the fee getters are those of model/RegistryWorld.v (sdk.NewInt64Coin(denom, int64(fee)), with its panic);
     - `return next(ctx, tx, simulate)` is "this decorator has no objection": the rest of the chain is model/App.v's. *)
From MC Require Import lib.Prelude lib.AMap lib.GoSdk model.Bank model.Registry model.Enterprise.
From MC Require model.RegistryWorld.

Record aworld := mk_aworld { aw_now : Z; aw_check : bool; aw_bank : bank; aw_ent : ent_state; aw_reg : reg_state }.

Definition aw_rworld (w : aworld) : RegistryWorld.rworld := RegistryWorld.mk_rworld (aw_now w) 0 (aw_reg w).

Definition aw_IsCheckTx (w : aworld) : bool := aw_check w.
Definition reg_GetParamDenom (w : aworld) : denom := RegistryWorld.reg_GetParamDenom (aw_rworld w).
Definition reg_GetZeroFeeAsCoin (w : aworld) : outcome go_coin := RegistryWorld.reg_GetZeroFeeAsCoin (aw_rworld w).
Definition reg_GetRegistrationFeeAsCoin (w : aworld) : outcome go_coin := RegistryWorld.reg_GetRegistrationFeeAsCoin (aw_rworld w).
Definition reg_GetRecordFeeAsCoin (w : aworld) : outcome go_coin := RegistryWorld.reg_GetRecordFeeAsCoin (aw_rworld w).
Definition reg_GetPurchaseStorageFeeAsCoin (w : aworld) : outcome go_coin := RegistryWorld.reg_GetPurchaseStorageFeeAsCoin (aw_rworld w).
Definition reg_GetMaxPurchasableSlots (w : aworld) (id : Z) : Z := max_purchasable (aw_reg w) id.

Definition acc_GetAccount (w : aworld) (a : addr) : go_modacc := Some a.
Definition bank_GetAllBalances (w : aworld) (a : addr) : list go_coin :=
  map (fun kv => (snd (fst kv), snd kv)) (filter (fun kv => (fst (fst kv) =? a) && (0 <? snd kv)) (bal (aw_bank w))).
Definition bank_SpendableCoins (w : aworld) (a : addr) : list go_coin := bank_GetAllBalances w a.
Definition ent_GetLockedUndAmountForAccount (w : aworld) (a : addr) : go_coin := locked_coin (aw_ent w) a.

(* error classes (= those of model/App.v) *)
Definition exported_ErrIncorrectFeeDenomination : Z := 50.
Definition exported_ErrInsufficientWrkChainFee : Z := 51.
Definition exported_ErrTooMuchWrkChainFee : Z := 52.
Definition exported_ErrInsufficientBeaconFee : Z := 51.
Definition exported_ErrTooMuchBeaconFee : Z := 52.
Definition exported_ErrExceedsMaxStorage : Z := ERR_REG_MAX.
Definition sdkerrors_ErrInsufficientFunds : Z := 53.     (* ERR_FEE_FUNDS *)
Definition sdkerrors_ErrInvalidCoins : Z := 40.          (* ERR_APP *)
Definition sdkerrors_ErrUnknownAddress : Z := 40.
Definition sdkerrors_ErrTxDecode : Z := 40.
