(* Correspondence check and implementation-side monitor for C19 (executable, no proofs).
   A case is what the harness observed on the real ConvertUndDenomination:
   (input, direction, first output, output of converting the first output back). *)
From MC Require Import lib.Prelude lib.CheckLib model.Denom.
From Coq Require Import NArith.
Open Scope string_scope.

Definition denom_case : Type := string * denom * option string * option string.

Definition opt_string_eqb (a b : option string) : bool :=
  match a, b with
  | None, None => true
  | Some x, Some y => String.eqb x y
  | _, _ => false
  end.

Definition other (d : denom) : denom := match d with Fund => Nund | Nund => Fund end.
Definition suffix (d : denom) : string := match d with Fund => "nund" | Nund => "fund" end.

(* what the model answers for the same two calls *)
Definition model_out1 (s : string) (d : denom) : option string := convert s d.
Definition model_out2 (s : string) (d : denom) : option string :=
  match convert_num s d with
  | Some num => convert num (other d)
  | None => None
  end.

Definition denom_corr_ok (c : denom_case) : bool :=
  let '(s, d, o1, o2) := c in
  opt_string_eqb (model_out1 s d) o1 && opt_string_eqb (model_out2 s d) o2.

(* the property itself, evaluated on the implementation's outputs, independent of [convert] *)
Definition denom_mon_ok (c : denom_case) : bool :=
  let '(s, d, o1, o2) := c in
  match parse_amount s with
  | None => true
  | Some a =>
      let k := frac_len a in
      let ip := N.of_uint (am_int a) in
      let fp := N.of_uint (am_frac a) in
      match d with
      | Fund =>
          if Nat.leb k 9 then
            let f9 := (fp * pow10 (9 - k))%N in
            opt_string_eqb o1 (Some (print_N (ip * 1000000000 + f9) ++ "nund"))
            && opt_string_eqb o2 (Some (print_N ip ++ "." ++ pad9 f9 ++ "fund"))
          else true
      | Nund =>
          if Nat.eqb k 0 then
            opt_string_eqb o1 (Some (print_N (ip / 1000000000) ++ "." ++ pad9 (ip mod 1000000000) ++ "fund"))
            && opt_string_eqb o2 (Some (print_N ip ++ "nund"))
          else true
      end
  end.

Definition denom_bad_corr (l : list denom_case) : list nat := bad_indices denom_corr_ok 0 l.
Definition denom_bad_mon (l : list denom_case) : list nat := bad_indices denom_mon_ok 0 l.
