(* The world of the SECOND rendering of the x/stream keeper and message server (GeneratedStreamKeeperOnStore.v): the same
   Go code as GeneratedStreamKeeper.v, but its store primitives are the GENERATED store accessors
   (GeneratedStreamStore.v) over the byte-keyed store (model/KVStore.v) with the GENERATED key builders, instead of the
   hand-written maps of model/StreamKeeperPrims.v.  Hand-written here (adapters only, no semantics of their own):
     - the world: block time, bank, the module's byte-level store, and the embedding of the abstract addresses of
       messages into address bytes (what bech32 decoding yields);
     - os_str_X = go_st_X at the embedded addresses; the x/bank primitives are those of StreamKeeperPrims.v over the
       bank component.
   proofs/GeneratedStreamOnStoreEq.v proves that this rendering simulates the one over the primitives. *)
From Coq Require Import NArith.
From MC Require Import lib.Prelude lib.AMap lib.GoSdk GeneratedStreamTypes model.Bank model.Stream model.Keys model.KVStore
  model.StoreCodecPrims GeneratedStreamStore.
From MC Require Export model.StreamKeeperPrims.

Record sworld := mk_sworld { sw_emb : go_addr -> list N; sw_now : Z; sw_bank : bank; sw_store : okv stream_val }.
Definition with_sbank (w : sworld) (b : bank) : sworld := mk_sworld (sw_emb w) (sw_now w) b (sw_store w).
Definition with_sstore (w : sworld) (s : okv stream_val) : sworld := mk_sworld (sw_emb w) (sw_now w) (sw_bank w) s.

Definition os_kw_now (w : sworld) : Z := sw_now w.

(* ---- store access: the generated accessors ---- *)
Definition os_str_GetStream (w : sworld) (r sn : go_addr) : outcome (go_Stream * bool) :=
  go_st_GetStream (sw_store w) (sw_emb w r) (sw_emb w sn).
Definition os_str_IsStream (w : sworld) (r sn : go_addr) : outcome bool :=
  go_st_IsStream (sw_store w) (sw_emb w r) (sw_emb w sn).
Definition os_str_SetStream (w : sworld) (r sn : go_addr) (g : go_Stream) : outcome (sworld * unit) :=
  do x <- go_st_SetStream (sw_store w) (sw_emb w r) (sw_emb w sn) g; Ok (with_sstore w (fst x), tt).
Definition os_str_DeleteStream (w : sworld) (r sn : go_addr) : outcome (sworld * unit) :=
  do x <- go_st_DeleteStream (sw_store w) (sw_emb w r) (sw_emb w sn); Ok (with_sstore w (fst x), tt).
Definition os_str_GetParams (w : sworld) : outcome go_Params := go_st_GetParams (sw_store w).
Definition os_str_SetParams (w : sworld) (p : go_Params) : outcome (sworld * unit) :=
  do x <- go_st_SetParams (sw_store w) p; Ok (with_sstore w (fst x), tt).

(* ---- x/bank: as in StreamKeeperPrims.v, over the bank component ---- *)
Definition os_bank_SendCoinsFromModuleToModule (w : sworld) (from to : addr) (cs : list go_coin) : outcome (sworld * unit) :=
  do b <- send_all (sw_bank w) from to cs; Ok (with_sbank w b, tt).
Definition os_bank_SendCoinsFromAccountToModule (w : sworld) (from to : addr) (cs : list go_coin) : outcome (sworld * unit) :=
  do b <- send_all (sw_bank w) from to cs; Ok (with_sbank w b, tt).
Definition os_bank_SendCoinsFromModuleToAccount (w : sworld) (from to : addr) (cs : list go_coin) : outcome (sworld * unit) :=
  if blocked to then Err ERR_UNAUTHORIZED
  else do b <- send_all (sw_bank w) from to cs; Ok (with_sbank w b, tt).

(* ---- genesis (keeper/genesis.go) ---- *)
(* the module account and x/bank's GetAllBalances / x/auth's SetModuleAccount: as in StreamKeeperPrims.v, over the bank
   component (readers return an outcome in this rendering) *)
Definition os_str_GetStreamModuleAccount (w : sworld) : outcome go_modacc := Ok (Some STREAM_MACC).
Definition os_bank_GetAllBalances (w : sworld) (a : addr) : outcome (list go_coin) :=
  Ok (map (fun kv => (snd (fst kv), snd kv)) (filter (fun kv => (fst (fst kv) =? a) && (0 <? snd kv)) (bal (sw_bank w)))).
Definition os_acc_SetModuleAccount (w : sworld) (m : go_modacc) : outcome (sworld * unit) := Ok (w, tt).

(* what IterateAllStreams hands its callback, in order: the GENERATED go_st_IterateAllStreams (prefix iteration, the
   address pair parsed from each key by the generated AddressesFromStreamKey, the value unmarshalled) with a callback
   that appends and never stops.  The listed addresses are BYTES; the document spells them as strings
   (receiverAddr.String()): [unemb] is that conversion back to an abstract address.  It is not a component of the world
   (no other function of the rendering needs it) but a Section variable of GeneratedStreamKeeperOnStore.v, hence a
   parameter of go_ExportGenesis alone and of every theorem about it. *)
Definition os_str_AllStreams (unemb : list N -> go_addr) (w : sworld) : outcome (list go_StreamExport) :=
  go_st_IterateAllStreams (sw_store w)
    (fun acc_ a_ => Ok (acc_ ++ [mk_go_StreamExport (unemb (fst (fst a_))) (unemb (snd (fst a_))) (snd a_)], false)) [].
