(* Vocabulary for the theorems that tie the code GENERATED from /repo/x/enterprise/keeper (GeneratedEnterpriseKeeper.v)
   to the hand-written enterprise model (model/Enterprise.v).  Definitions only. *)
From MC Require Import lib.Prelude lib.AMap lib.GoSdk GeneratedEnterpriseTypes model.Bank model.Enterprise
  model.EnterpriseKeeperPrims GeneratedEnterpriseKeeper.

Definition eworld_of (now_ns : Z) (b : bank) (s : ent_state) : eworld := mk_eworld now_ns b s.

(* model results seen as results of the generated code *)
Definition elift {A} (w : eworld) (o : outcome (ent_state * A)) : outcome (eworld * A) :=
  match o with
  | Ok (s, a) => Ok (with_ent w s, a)
  | Err c => Err c
  | Panic c => Panic c
  end.
Definition eblift (w : eworld) (o : outcome (bank * ent_state)) : outcome (eworld * unit) :=
  match o with
  | Ok (b, s) => Ok (mk_eworld (ew_now w) b s, tt)
  | Err c => Err c
  | Panic c => Panic c
  end.

(* the generated message server, driven by the model's message type *)
Definition ent_msg_exec (w : eworld) (m : ent_msg) : outcome (eworld * Z) :=
  match m with
  | ERaise p d amt =>
      do (w', rsp) <- go_UndPurchaseOrder w {| MsgUndPurchaseOrder_Purchaser := p; MsgUndPurchaseOrder_Amount := (d, amt) |};
      Ok (w', MsgUndPurchaseOrderResponse_PurchaseOrderId rsp)
  | EDecide sg poid dec =>
      do (w', _) <- go_ProcessUndPurchaseOrder w
           {| MsgProcessUndPurchaseOrder_PurchaseOrderId := poid; MsgProcessUndPurchaseOrder_Decision := dec;
              MsgProcessUndPurchaseOrder_Signer := sg |};
      Ok (w', 0)
  | EWhitelist sg target act =>
      do (w', _) <- go_WhitelistAddress w
           {| MsgWhitelistAddress_Address := target; MsgWhitelistAddress_Signer := sg; MsgWhitelistAddress_Action := act |};
      Ok (w', 0)
  end.

Definition ent_go_validate_basic (m : ent_msg) : outcome unit :=
  match m with
  | ERaise p d amt => go_MsgUndPurchaseOrder_ValidateBasic {| MsgUndPurchaseOrder_Purchaser := p; MsgUndPurchaseOrder_Amount := (d, amt) |}
  | EDecide sg poid dec =>
      go_MsgProcessUndPurchaseOrder_ValidateBasic
        {| MsgProcessUndPurchaseOrder_PurchaseOrderId := poid; MsgProcessUndPurchaseOrder_Decision := dec; MsgProcessUndPurchaseOrder_Signer := sg |}
  | EWhitelist sg target act =>
      go_MsgWhitelistAddress_ValidateBasic
        {| MsgWhitelistAddress_Address := target; MsgWhitelistAddress_Signer := sg; MsgWhitelistAddress_Action := act |}
  end.

(* BeginBlocker of x/enterprise/abci.go: ProcessAcceptedPurchaseOrders, then TallyPurchaseOrderDecisions
   (the call sequence itself is a translator fact proved in proofs/Wiring.v) *)
Definition go_ent_begin_block (w : eworld) : outcome (eworld * unit) :=
  do (w1, _) <- go_ProcessAcceptedPurchaseOrders w; go_TallyPurchaseOrderDecisions w1.
