(* Bank sub-model (x/bank v0.47 at keeper level, for the calls the four modules make).
   Addresses and denominations are abstract integers: scenario accounts are >= 0,
   module accounts are the negative constants below.  Vesting accounts are not modelled
   (the harness exercises them only on the implementation side). *)
From MC Require Import lib.Prelude lib.AMap.

Definition addr := Z.
Definition denom := Z.

Definition ENT_MACC : addr := -1.       (* "enterprise" : Minter, Staking *)
Definition STREAM_MACC : addr := -2.    (* "stream" : no permissions *)
Definition FEE_COLLECTOR : addr := -3.  (* "fee_collector" *)
Definition DISTR_MACC : addr := -4.     (* "distribution" *)
Definition GOV_MACC : addr := -5.       (* "gov" : Burner; the only unblocked module account *)
Definition OTHER_MACC : addr := -6.     (* bonded / not-bonded pools, transfer: never touched by the model *)

(* app.BlockedAddresses(): every module account except gov *)
Definition blocked (a : addr) : bool := (a <? 0) && negb (a =? GOV_MACC).

Definition NUND : denom := 0.

Record bank := { bal : amap (addr * denom) Z; supply : amap denom Z }.

Definition balance (b : bank) (a : addr) (d : denom) : Z :=
  match aget (a, d) (bal b) with Some v => v | None => 0 end.
Definition supply_of (b : bank) (d : denom) : Z :=
  match aget d (supply b) with Some v => v | None => 0 end.

Definition set_balance (b : bank) (a : addr) (d : denom) (v : Z) : bank :=
  {| bal := aset (a, d) v (bal b); supply := supply b |}.
Definition set_supply (b : bank) (d : denom) (v : Z) : bank :=
  {| bal := bal b; supply := aset d v (supply b) |}.

(* error codes used: 5 = insufficient funds, 4 = unauthorized (blocked / no permission) *)
Definition ERR_INSUFFICIENT : Z := 5.
Definition ERR_UNAUTHORIZED : Z := 4.

(* SendCoins: subUnlockedCoins then addCoins (amt >= 0 is guaranteed by Coins validity) *)
Definition bank_send (b : bank) (from to : addr) (d : denom) (amt : Z) : outcome bank :=
  if amt <? 0 then Panic 1
  else if balance b from d <? amt then Err ERR_INSUFFICIENT
  else
    let b1 := set_balance b from d (balance b from d - amt) in
    Ok (set_balance b1 to d (balance b1 to d + amt)).

(* SendCoinsFromModuleToAccount: refuses blocked recipients *)
Definition bank_send_m2a (b : bank) (macc to : addr) (d : denom) (amt : Z) : outcome bank :=
  if blocked to then Err ERR_UNAUTHORIZED else bank_send b macc to d amt.

(* MintCoins into a module account holding Minter (checked by the caller's table) *)
Definition bank_mint (b : bank) (macc : addr) (d : denom) (amt : Z) : outcome bank :=
  if amt <? 0 then Panic 1
  else
    let b1 := set_balance b macc d (balance b macc d + amt) in
    Ok (set_supply b1 d (supply_of b1 d + amt)).

Definition bank_burn (b : bank) (macc : addr) (d : denom) (amt : Z) : outcome bank :=
  if amt <? 0 then Panic 1
  else if balance b macc d <? amt then Err ERR_INSUFFICIENT
  else
    let b1 := set_balance b macc d (balance b macc d - amt) in
    Ok (set_supply b1 d (supply_of b1 d - amt)).

Definition total_balance (b : bank) (d : denom) : Z :=
  sumZ (map (fun kv => if snd (fst kv) =? d then snd kv else 0) (bal b)).
