(* The primitives the translated types/denom.go (GeneratedDenom.v: ConvertUndDenomination) is written against:
   math/big on NON-NEGATIVE values, described by hand with the parsing / printing functions of model/Denom.v.  Trusted:
     - a *big.Rat is a pair (numerator, denominator) of naturals, denominator > 0, NOT necessarily in lowest terms (Go
       normalises; every operation used here - Mul, Quo, Int.Quo of Num by Denom, FloatString - depends on the value only);
     - new(big.Rat).SetString(s): within the modelled syntax  digits* [ "." digits* ]  the value [parse_amount] reads,
       ok = false for anything else (signs, exponents, "a/b" are outside the model: model/Denom.v);
     - big.Int.Quo truncates (= floor on non-negative values) and panics on a zero divisor, as Rat.Quo does;
     - Int.String / Rat.FloatString(9) print as [print_N] / [print_fund (float_string9 ..)] (round half up on the ninth
       decimal, as big.Rat.FloatString does). *)
From MC Require Import lib.Prelude model.Denom.
From Coq Require Import String NArith.
Open Scope N_scope.

Definition go_rat : Type := (N * N)%type.
Definition GO_PANIC_DIVZERO : Z := 30%Z.
Definition types_ErrInvalidAmount : Z := 1%Z.      (* fmt.Errorf("invalid amount: ..") *)

Definition Rat_SetString (s : string) : go_rat * bool :=
  match parse_amount s with
  | Some a => ((rat_num a, rat_den a), true)
  | None => ((0, 1), false)
  end.
Definition Rat_SetInt (n : N) : go_rat := (n, 1).
Definition Rat_Mul (a b : go_rat) : go_rat := (fst a * fst b, snd a * snd b).
Definition Rat_Quo (a b : go_rat) : outcome go_rat :=
  if fst b =? 0 then Panic GO_PANIC_DIVZERO else Ok (fst a * snd b, snd a * fst b).
Definition Rat_Num (a : go_rat) : N := fst a.
Definition Rat_Denom (a : go_rat) : N := snd a.
Definition BigInt_Quo (a b : N) : outcome N := if b =? 0 then Panic GO_PANIC_DIVZERO else Ok (a / b).
Definition BigInt_String (n : N) : string := print_N n.
Definition Rat_FloatString9 (a : go_rat) : string := print_fund (float_string9 (fst a) (snd a)).
