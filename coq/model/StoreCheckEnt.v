(* Correspondence check for the TRANSLATED store accessors of x/enterprise (GeneratedEnterpriseStore.v): see
   StoreCheckWrk.v.  The harness (vharness store) runs a sequence of keeper calls on the real keeper and records what
   each returned; here the generated functions run the same sequence from the empty store.  Executable, no proofs.

   The accessors are parameterised by the two conversions between the abstract address of the records (go_addr, an
   index) and its bytes.  They are instantiated from the address table every cases file carries
   (addr_table : list (index * bytes)):
     sdk.AccAddressFromBech32 of the string of index i = the bytes of i if i is in the table, an error otherwise;
     AccAddress.String() of bytes = the index whose bytes they are (go_zero_addr = the empty string otherwise: the
     harness only stores table addresses, and the empty address spells "").
   Strings that are not the bech32 of a table address are the index BAD_ADDR (-999) on the harness side. *)
From Coq Require Import String NArith.
From MC Require Import lib.Prelude lib.GoSdk lib.CheckLib model.Keys model.KVStore GeneratedEnterpriseTypes GeneratedEnterpriseStore.
Open Scope Z_scope.

Definition addr_tbl := list (Z * list N).
Definition tbl_bech32 (t : addr_tbl) (a : go_addr) : outcome (list N) :=
  match find (fun e => fst e =? a) t with Some e => Ok (snd e) | None => Err 7 end.
Definition tbl_string (t : addr_tbl) (bz : list N) : go_addr :=
  match find (fun e => key_eqb (snd e) bz) t with Some e => fst e | None => go_zero_addr end.

Inductive est_op :=
| EoSetParams (p : go_Params) (ok : bool)
| EoGetParams (obs : go_Params)
| EoSetHighest (n : Z)
| EoGetHighest (obs : option Z)
(* purchase orders *)
| EoSetPO (po : go_EnterpriseUndPurchaseOrder) (ok : bool)          (* ok = false: refused with an error (invalid status) *)
| EoGetPO (id : Z) (obs : go_EnterpriseUndPurchaseOrder * bool)
| EoPOExists (id : Z) (obs : bool)
| EoAllPOs (obs : list go_EnterpriseUndPurchaseOrder)
| EoPOsStop (obs : list go_EnterpriseUndPurchaseOrder)              (* IteratePurchaseOrders, callback stops after 2 *)
(* raised / accepted queues *)
| EoAddRaised (id : Z)
| EoInRaised (id : Z) (obs : bool)
| EoRemRaised (id : Z)
| EoAllRaised (obs : list Z)
| EoRaisedStop (obs : list Z)                                       (* IterateRaisedQueue, callback stops after 2 *)
| EoAddAccepted (id : Z)
| EoInAccepted (id : Z) (obs : bool)
| EoRemAccepted (id : Z)
| EoAllAccepted (obs : list Z)
| EoAcceptedStop (obs : list Z)                                     (* IterateAcceptedQueue, callback stops at the first *)
(* whitelist *)
| EoWlAdd (a : list N) (ok : bool)
| EoWlRemove (a : list N) (ok : bool)
| EoWlIs (a : list N) (obs : bool)
| EoWlAll (obs : list go_addr)
| EoWlStop (obs : list (list N))                                    (* IterateWhitelist, callback stops after 2: raw bytes *)
(* totals *)
| EoSetTotalLocked (c : go_coin)
| EoGetTotalLocked (obs : go_coin)
| EoSetTotalSpent (c : go_coin)
| EoGetTotalSpent (obs : go_coin)
(* locked per account *)
| EoSetLocked (l : go_LockedUnd) (ok : bool)
| EoGetLocked (a : list N) (obs : go_LockedUnd)
| EoHasLocked (a : list N) (obs : bool)
| EoIsLocked (a : list N) (obs : bool)
| EoLockedAmt (a : list N) (obs : go_coin)
| EoAllLocked (obs : list go_LockedUnd)
(* spent per account *)
| EoSetSpent (sp : go_SpentEFUND) (ok : bool)
| EoGetSpent (a : list N) (obs : go_SpentEFUND)
| EoHasSpent (a : list N) (obs : bool)
| EoSpentAmt (a : list N) (obs : go_coin)
| EoAllSpent (obs : list go_SpentEFUND).

Definition coin_eqb (a b : go_coin) : bool := (fst a =? fst b) && (snd a =? snd b).
Definition eparams_eqb (a b : go_Params) : bool :=
  list_eqb Z.eqb (Params_EntSigners a) (Params_EntSigners b) && (Params_Denom a =? Params_Denom b) &&
  (Params_MinAccepts a =? Params_MinAccepts b) && (Params_DecisionTimeLimit a =? Params_DecisionTimeLimit b).
Definition decision_eqb (a b : go_PurchaseOrderDecision) : bool :=
  (PurchaseOrderDecision_Signer a =? PurchaseOrderDecision_Signer b) &&
  (PurchaseOrderDecision_Decision a =? PurchaseOrderDecision_Decision b) &&
  (PurchaseOrderDecision_DecisionTime a =? PurchaseOrderDecision_DecisionTime b).
Definition po_eqb (a b : go_EnterpriseUndPurchaseOrder) : bool :=
  (EnterpriseUndPurchaseOrder_Id a =? EnterpriseUndPurchaseOrder_Id b) &&
  (EnterpriseUndPurchaseOrder_Purchaser a =? EnterpriseUndPurchaseOrder_Purchaser b) &&
  coin_eqb (EnterpriseUndPurchaseOrder_Amount a) (EnterpriseUndPurchaseOrder_Amount b) &&
  (EnterpriseUndPurchaseOrder_Status a =? EnterpriseUndPurchaseOrder_Status b) &&
  (EnterpriseUndPurchaseOrder_RaiseTime a =? EnterpriseUndPurchaseOrder_RaiseTime b) &&
  (EnterpriseUndPurchaseOrder_CompletionTime a =? EnterpriseUndPurchaseOrder_CompletionTime b) &&
  list_eqb decision_eqb (EnterpriseUndPurchaseOrder_Decisions a) (EnterpriseUndPurchaseOrder_Decisions b).
Definition locked_eqb (a b : go_LockedUnd) : bool :=
  (LockedUnd_Owner a =? LockedUnd_Owner b) && coin_eqb (LockedUnd_Amount a) (LockedUnd_Amount b).
Definition spent_eqb (a b : go_SpentEFUND) : bool :=
  (SpentEFUND_Owner a =? SpentEFUND_Owner b) && coin_eqb (SpentEFUND_Amount a) (SpentEFUND_Amount b).

Definition estore := okv enterprise_val.

Definition rd {A} (o : outcome A) (eqb : A -> A -> bool) (obs : A) : bool :=
  match o with Ok a => eqb a obs | _ => false end.
Definition pair_b {A} (eqb : A -> A -> bool) (x y : A * bool) : bool := eqb (fst x) (fst y) && Bool.eqb (snd x) (snd y).
Definition wr (s : estore) (o : outcome (estore * unit)) : estore * bool :=
  match o with Ok (s', _) => (s', true) | _ => (s, false) end.
(* a call that may be refused with an ordinary error (never a panic): the store is unchanged then *)
Definition wr_ok (s : estore) (o : outcome (estore * unit)) (ok : bool) : estore * bool :=
  match o with Ok (s', _) => (s', ok) | Err _ => (s, negb ok) | Panic _ => (s, false) end.
Definition stop1_cb {A} (acc : list A) (a : A) : outcome (list A * bool) := Ok (acc ++ [a], true).
Definition stop2_cb {A} (acc : list A) (a : A) : outcome (list A * bool) :=
  let acc' := acc ++ [a] in Ok (acc', (2 <=? Z.of_nat (List.length acc'))).

Section WithTable.
Variable t : addr_tbl.
Let b32 := tbl_bech32 t.
Let str := tbl_string t.

Definition est_step (s : estore) (op : est_op) : estore * bool :=
  match op with
  | EoSetParams p ok => wr_ok s (go_st_SetParams s p) ok
  | EoGetParams obs => (s, rd (go_st_GetParams s) eparams_eqb obs)
  | EoSetHighest n => wr s (go_st_SetHighestPurchaseOrderID s n)
  | EoGetHighest obs =>
      (s, match go_st_GetHighestPurchaseOrderID s, obs with
          | Ok a, Some b => a =? b
          | Err _, None => true
          | _, _ => false
          end)
  | EoSetPO po ok => wr_ok s (go_st_SetPurchaseOrder s po) ok
  | EoGetPO id obs => (s, rd (go_st_GetPurchaseOrder s id) (pair_b po_eqb) obs)
  | EoPOExists id obs => (s, rd (go_st_PurchaseOrderExists s id) Bool.eqb obs)
  | EoAllPOs obs => (s, rd (go_st_GetAllPurchaseOrders s) (list_eqb po_eqb) obs)
  | EoPOsStop obs => (s, rd (go_st_IteratePurchaseOrders s stop2_cb []) (list_eqb po_eqb) obs)
  | EoAddRaised id => wr s (go_st_AddPoToRaisedQueue s id)
  | EoInRaised id obs => (s, rd (go_st_PurchaseOrderIsInRaisedQueue s id) Bool.eqb obs)
  | EoRemRaised id => wr s (go_st_RemovePurchaseOrderFromRaisedQueue s id)
  | EoAllRaised obs => (s, rd (go_st_GetAllRaisedPurchaseOrders s) (list_eqb Z.eqb) obs)
  | EoRaisedStop obs => (s, rd (go_st_IterateRaisedQueue s stop2_cb []) (list_eqb Z.eqb) obs)
  | EoAddAccepted id => wr s (go_st_AddPoToAcceptedQueue s id)
  | EoInAccepted id obs => (s, rd (go_st_PurchaseOrderIsInAcceptedQueue s id) Bool.eqb obs)
  | EoRemAccepted id => wr s (go_st_RemovePurchaseOrderFromAcceptedQueue s id)
  | EoAllAccepted obs => (s, rd (go_st_GetAllAcceptedPurchaseOrders s) (list_eqb Z.eqb) obs)
  | EoAcceptedStop obs => (s, rd (go_st_IterateAcceptedQueue s stop1_cb []) (list_eqb Z.eqb) obs)
  | EoWlAdd a ok => wr_ok s (go_st_AddAddressToWhitelist s a) ok
  | EoWlRemove a ok => wr_ok s (go_st_RemoveAddressFromWhitelist s a) ok
  | EoWlIs a obs => (s, rd (go_st_AddressIsWhitelisted s a) Bool.eqb obs)
  | EoWlAll obs => (s, rd (go_st_GetAllWhitelistedAddresses str s) (list_eqb Z.eqb) obs)
  | EoWlStop obs => (s, rd (go_st_IterateWhitelist s stop2_cb []) (list_eqb key_eqb) obs)
  | EoSetTotalLocked c => wr s (go_st_SetTotalLockedUnd s c)
  | EoGetTotalLocked obs => (s, rd (go_st_GetTotalLockedUnd s) coin_eqb obs)
  | EoSetTotalSpent c => wr s (go_st_SetTotalSpentEFUND s c)
  | EoGetTotalSpent obs => (s, rd (go_st_GetTotalSpentEFUND s) coin_eqb obs)
  | EoSetLocked l ok => wr_ok s (go_st_SetLockedUndForAccount b32 s l) ok
  | EoGetLocked a obs => (s, rd (go_st_GetLockedUndForAccount str s a) locked_eqb obs)
  | EoHasLocked a obs => (s, rd (go_st_AccountHasLockedUnd s a) Bool.eqb obs)
  | EoIsLocked a obs => (s, rd (go_st_IsLocked str s a) Bool.eqb obs)
  | EoLockedAmt a obs => (s, rd (go_st_GetLockedUndAmountForAccount str s a) coin_eqb obs)
  | EoAllLocked obs => (s, rd (go_st_GetAllLockedUnds s) (list_eqb locked_eqb) obs)
  | EoSetSpent sp ok => wr_ok s (go_st_SetSpentEFUNDForAccount b32 s sp) ok
  | EoGetSpent a obs => (s, rd (go_st_GetSpentEFUNDForAccount str s a) spent_eqb obs)
  | EoHasSpent a obs => (s, rd (go_st_AccountHasSpentEFUND s a) Bool.eqb obs)
  | EoSpentAmt a obs => (s, rd (go_st_GetSpentEFUNDAmountForAccount str s a) coin_eqb obs)
  | EoAllSpent obs => (s, rd (go_st_GetAllSpentEFUNDs s) (list_eqb spent_eqb) obs)
  end.

Fixpoint est_run (s : estore) (i : nat) (ops : list est_op) : list nat :=
  match ops with
  | [] => []
  | op :: r => let '(s', ok) := est_step s op in (if ok then [] else [i]) ++ est_run s' (S i) r
  end.
Fixpoint est_final (s : estore) (ops : list est_op) : estore :=
  match ops with [] => s | op :: r => est_final (fst (est_step s op)) r end.
Definition est_bad_history (ops : list est_op) : bool :=
  negb (match est_run [] 0 ops with [] => true | _ => false end) || negb (okv_sorted (est_final [] ops)).
Definition est_bad_corr (hs : list (list est_op)) : list nat := bad_indices (fun h => negb (est_bad_history h)) 0 hs.
(* diagnosis: the failing op indices of every history *)
Definition est_bad_ops (hs : list (list est_op)) : list (list nat) := map (fun h => est_run [] 0 h) hs.
End WithTable.
