(* Specification vocabulary for the stream theorems (definitions only, no proofs). *)
From MC Require Import lib.Prelude lib.AMap model.Bank model.Stream.

Definition whole_seconds (dt : Z) : Z := dt / NS.

(* per-stream well-formedness that every reachable stream satisfies at block time [now] *)
Record stream_ok (now : Z) (st : stream) : Prop := {
  so_rate : 1 <= st_rate st < two63;
  so_deposit : 0 <= st_deposit st;
  so_lot : st_lot st <= now;
  so_lot_storable : time_storable (st_lot st) = true;
  so_dzt_storable : time_storable (st_dzt st) = true;
  (* the sustain invariant of C11: the remaining deposit covers the flow from the last
     release until the advertised deposit-zero time *)
  so_sustain : st_rate st * (st_dzt st - st_lot st) <= st_deposit st * NS
               \/ (st_deposit st = 0 /\ st_dzt st <= now)
     (* second disjunct: an emptied stream whose rate was changed; it is expired, so the next
        top-up takes the "expired" branch and restarts LastOutflowTime *)
}.

Definition streams_ok (now : Z) (s : str_state) : Prop :=
  forall k st, aget k (s_streams s) = Some st -> stream_ok now st.

Definition deposit_of (s : str_state) (r sn : addr) : Z :=
  match aget (r, sn) (s_streams s) with Some st => st_deposit st | None => 0 end.

(* escrow backing (C10): the module account holds exactly the remaining deposits, per denom *)
Definition escrow_backed (b : bank) (s : str_state) : Prop :=
  forall d, balance b STREAM_MACC d = total_deposits s d.

(* global invariant of the (bank, stream-module) pair at block time [now] *)
Record str_inv (now : Z) (b : bank) (s : str_state) : Prop := {
  si_keys : NoDup (akeys (s_streams s));
  si_streams : streams_ok now s;
  si_backed : escrow_backed b s;
  si_valfee : 0 <= s_valfee s <= DEC_ONE;
  si_receivers : forall r sn st, aget (r, sn) (s_streams s) = Some st -> blocked r = false;
  si_now : time_storable now = true /\ 0 <= now     (* block time is after 1970 *)
}.

(* what the Go types and the signature check guarantee about a delivered message:
   flow rates are int64, the signer is an ordinary (non-module) account *)
Definition str_msg_wf (m : str_msg) : Prop :=
  0 <= str_signer m /\
  match m with
  | SCreate _ _ _ _ rate => rate < two63
  | SUpdateFlow _ _ rate => rate < two63
  | _ => True
  end.

(* a history: block times never decrease (CometBFT BFT time), each op is a message that
   passed ValidateBasic and signature checks for [str_signer m] *)
Fixpoint times_sorted (now : Z) (h : list (Z * str_msg)) : Prop :=
  match h with
  | [] => True
  | (t, m) :: r => now <= t /\ time_storable t = true /\ str_msg_wf m /\ times_sorted t r
  end.

(* run a history; failed messages leave the state untouched (tx atomicity) *)
Definition str_step (bs : bank * str_state) (tm : Z * str_msg) : bank * str_state :=
  let '(t, m) := tm in
  match str_validate_basic m with
  | Ok _ =>
      match str_exec t (fst bs) (snd bs) m with
      | Ok (b', s', _) => (b', s')
      | _ => bs
      end
  | _ => bs
  end.

Definition str_run (bs : bank * str_state) (h : list (Z * str_msg)) : bank * str_state :=
  fold_left str_step h bs.

Definition last_time (now : Z) (h : list (Z * str_msg)) : Z :=
  fold_left (fun _ tm => fst tm) h now.
