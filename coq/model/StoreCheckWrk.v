(* Correspondence check for the TRANSLATED store accessors of x/wrkchain (GeneratedWrkchainStore.v) and, through them,
   for the store model (model/KVStore.v): the harness runs a sequence of keeper calls on the real keeper (a cached
   context of the real application) and records what each returned; here the generated functions run the same
   sequence from the empty store.  Executable, no proofs. *)
From Coq Require Import String NArith.
From MC Require Import lib.Prelude lib.GoSdk lib.CheckLib model.Keys model.KVStore GeneratedWrkchainTypes GeneratedWrkchainStore.
Open Scope Z_scope.

Inductive wst_op :=
| WoSetParams (p : go_Params) (ok : bool)
| WoGetParams (obs : go_Params)
| WoSetHighest (n : Z)
| WoGetHighest (obs : option Z)
| WoSetChain (wc : go_WrkChain)
| WoGetChain (id : Z) (obs : go_WrkChain * bool)
| WoIsReg (id : Z) (obs : bool)
| WoAllChains (obs : list go_WrkChain)
| WoSetLimit (id l : Z)
| WoGetLimit (id : Z) (obs : go_WrkChainStorageLimit * bool)
| WoHasLimit (id : Z) (obs : bool)
| WoSetBlock (id : Z) (b : go_WrkChainBlock)
| WoGetBlock (id h : Z) (obs : go_WrkChainBlock * bool)
| WoIsRecorded (id h : Z) (obs : bool)
| WoAllBlocks (id : Z) (obs : list go_WrkChainBlock)
| WoBlocksRev (id : Z) (obs : list go_WrkChainBlock)
| WoBlocksPage (id page limit : Z) (obs : list go_WrkChainBlock)
| WoFirstStop (id : Z) (obs : list go_WrkChainBlock)      (* Iterate with a callback that stops after 2 elements *)
| WoLastHeight (id : Z) (obs : Z).

Definition params_eqb (a b : go_Params) : bool :=
  (Params_FeeRegister a =? Params_FeeRegister b) && (Params_FeeRecord a =? Params_FeeRecord b) &&
  (Params_FeePurchaseStorage a =? Params_FeePurchaseStorage b) && (Params_Denom a =? Params_Denom b) &&
  (Params_DefaultStorageLimit a =? Params_DefaultStorageLimit b) && (Params_MaxStorageLimit a =? Params_MaxStorageLimit b).
Definition chain_eqb (a b : go_WrkChain) : bool :=
  (WrkChain_WrkchainId a =? WrkChain_WrkchainId b) && String.eqb (WrkChain_Moniker a) (WrkChain_Moniker b) &&
  String.eqb (WrkChain_Name a) (WrkChain_Name b) && String.eqb (WrkChain_Genesis a) (WrkChain_Genesis b) &&
  String.eqb (WrkChain_Type a) (WrkChain_Type b) && (WrkChain_Lastblock a =? WrkChain_Lastblock b) &&
  (WrkChain_NumBlocks a =? WrkChain_NumBlocks b) && (WrkChain_LowestHeight a =? WrkChain_LowestHeight b) &&
  (WrkChain_RegTime a =? WrkChain_RegTime b) && (WrkChain_Owner a =? WrkChain_Owner b).
Definition limit_eqb (a b : go_WrkChainStorageLimit) : bool :=
  (WrkChainStorageLimit_WrkchainId a =? WrkChainStorageLimit_WrkchainId b) &&
  (WrkChainStorageLimit_InStateLimit a =? WrkChainStorageLimit_InStateLimit b).
Definition block_eqb (a b : go_WrkChainBlock) : bool :=
  (WrkChainBlock_Height a =? WrkChainBlock_Height b) && String.eqb (WrkChainBlock_Blockhash a) (WrkChainBlock_Blockhash b) &&
  String.eqb (WrkChainBlock_Parenthash a) (WrkChainBlock_Parenthash b) && String.eqb (WrkChainBlock_Hash1 a) (WrkChainBlock_Hash1 b) &&
  String.eqb (WrkChainBlock_Hash2 a) (WrkChainBlock_Hash2 b) && String.eqb (WrkChainBlock_Hash3 a) (WrkChainBlock_Hash3 b) &&
  (WrkChainBlock_SubTime a =? WrkChainBlock_SubTime b).

Definition wstore := okv wrkchain_val.

Definition rd {A} (o : outcome A) (eqb : A -> A -> bool) (obs : A) : bool :=
  match o with Ok a => eqb a obs | _ => false end.
Definition pair_b {A} (eqb : A -> A -> bool) (x y : A * bool) : bool := eqb (fst x) (fst y) && Bool.eqb (snd x) (snd y).
Definition wr (s : wstore) (o : outcome (wstore * unit)) : wstore * bool :=
  match o with Ok (s', _) => (s', true) | _ => (s, false) end.
Definition append_cb {A} (acc : list A) (a : A) : outcome (list A * bool) := Ok (acc ++ [a], false).
Definition stop2_cb {A} (acc : list A) (a : A) : outcome (list A * bool) :=
  let acc' := acc ++ [a] in Ok (acc', (2 <=? Z.of_nat (List.length acc'))).

Definition wst_step (s : wstore) (op : wst_op) : wstore * bool :=
  match op with
  | WoSetParams p ok =>
      match go_st_SetParams s p with
      | Ok (s', _) => (s', ok)
      | _ => (s, negb ok)
      end
  | WoGetParams obs => (s, rd (go_st_GetParams s) params_eqb obs)
  | WoSetHighest n => wr s (go_st_SetHighestWrkChainID s n)
  | WoGetHighest obs =>
      (s, match go_st_GetHighestWrkChainID s, obs with
          | Ok a, Some b => a =? b
          | Err _, None => true
          | _, _ => false
          end)
  | WoSetChain wc => wr s (go_st_SetWrkChain s wc)
  | WoGetChain id obs => (s, rd (go_st_GetWrkChain s id) (pair_b chain_eqb) obs)
  | WoIsReg id obs => (s, rd (go_st_IsWrkChainRegistered s id) Bool.eqb obs)
  | WoAllChains obs => (s, rd (go_st_GetAllWrkChains s) (list_eqb chain_eqb) obs)
  | WoSetLimit id l => wr s (go_st_SetWrkChainStorageLimit s id l)
  | WoGetLimit id obs => (s, rd (go_st_GetWrkChainStorageLimit s id) (pair_b limit_eqb) obs)
  | WoHasLimit id obs => (s, rd (go_st_HasWrkChainStorageLimit s id) Bool.eqb obs)
  | WoSetBlock id b => wr s (go_st_SetWrkChainBlock s id b)
  | WoGetBlock id h obs => (s, rd (go_st_GetWrkChainBlock s id h) (pair_b block_eqb) obs)
  | WoIsRecorded id h obs => (s, rd (go_st_IsWrkChainBlockRecorded s id h) Bool.eqb obs)
  | WoAllBlocks id obs => (s, rd (go_st_GetAllWrkChainBlockHashes s id) (list_eqb block_eqb) obs)
  | WoBlocksRev id obs => (s, rd (go_st_IterateWrkChainBlockHashesReverse s id append_cb []) (list_eqb block_eqb) obs)
  | WoBlocksPage id page limit obs =>
      (s, rd (go_st_IterateWrkChainBlockHashesPaginated s id page limit append_cb []) (list_eqb block_eqb) obs)
  | WoFirstStop id obs => (s, rd (go_st_IterateWrkChainBlockHashes s id stop2_cb []) (list_eqb block_eqb) obs)
  | WoLastHeight id obs => (s, rd (go_st_GetLastWrkChainHeightInState s id) Z.eqb obs)
  end.

Fixpoint wst_run (s : wstore) (i : nat) (ops : list wst_op) : list nat :=
  match ops with
  | [] => []
  | op :: r => let '(s', ok) := wst_step s op in (if ok then [] else [i]) ++ wst_run s' (S i) r
  end.

(* one history = one sequence from the empty store; result: (history index, failing op indices) for bad histories;
   the representation invariant of the store model is checked at the end of every history as well *)
Fixpoint wst_final (s : wstore) (ops : list wst_op) : wstore :=
  match ops with [] => s | op :: r => wst_final (fst (wst_step s op)) r end.
Definition wst_bad_history (ops : list wst_op) : bool :=
  negb (match wst_run [] 0 ops with [] => true | _ => false end) || negb (okv_sorted (wst_final [] ops)).
Definition wst_bad_corr (hs : list (list wst_op)) : list nat := bad_indices (fun h => negb (wst_bad_history h)) 0 hs.
