(* Primitives of the translated x/beacon keeper code that mention the module's protobuf records (see
   model/RegistryWorld.v for the rest and for what is trusted). *)
From MC Require Import lib.Prelude lib.AMap lib.GoSdk GeneratedBeaconTypes model.Bank model.Registry.
From MC Require Import model.Genesis.
From MC Require Export model.RegistryWorld.

Definition beacon_ErrContentTooLarge : Z := ERR_REG.
Definition beacon_ErrMissingData : Z := ERR_REG.
Definition beacon_ErrInvalidData : Z := ERR_REG.
Definition beacon_ErrBeaconDoesNotExist : Z := ERR_REG_UNKNOWN.
Definition beacon_ErrNotBeaconOwner : Z := ERR_REG_NOT_OWNER.
Definition beacon_ErrExceedsMaxStorage : Z := ERR_REG_MAX.

Definition to_go_entity (rg : registration) : go_Beacon :=
  {| Beacon_BeaconId := rg_id rg; Beacon_Moniker := rg_moniker rg; Beacon_Name := rg_name rg;
     Beacon_LastTimestampId := rg_last rg; Beacon_FirstIdInState := rg_lowest rg; Beacon_NumInState := rg_num rg;
     Beacon_RegTime := rg_regtime rg; Beacon_Owner := rg_owner rg |}.
Definition of_go_entity (g : go_Beacon) : registration :=
  {| rg_id := Beacon_BeaconId g; rg_owner := Beacon_Owner g; rg_moniker := Beacon_Moniker g; rg_name := Beacon_Name g;
     rg_genesis := EmptyString; rg_type := EmptyString; rg_last := Beacon_LastTimestampId g;
     rg_num := Beacon_NumInState g; rg_lowest := Beacon_FirstIdInState g; rg_regtime := Beacon_RegTime g |}.

Definition reg_GetEntity (w : rworld) (id : Z) : go_Beacon * bool :=
  match aget id (r_regs (rw_reg w)) with
  | Some rg => (to_go_entity rg, true)
  | None => (zero_go_Beacon, false)
  end.
Definition reg_SetEntity (w : rworld) (g : go_Beacon) : outcome (rworld * unit) := reg_put_entity w (of_go_entity g).
Definition reg_GetStorageLimit (w : rworld) (id : Z) : go_BeaconStorageLimit * bool :=
  match aget id (r_limits (rw_reg w)) with
  | Some l => (mk_go_BeaconStorageLimit id l, true)
  | None => (mk_go_BeaconStorageLimit id MODULE_DEFAULT_LIMIT, false)
  end.
Definition reg_SetRecord (w : rworld) (id : Z) (b : go_BeaconTimestamp) : outcome (rworld * unit) :=
  reg_put_record w id {| rc_key := BeaconTimestamp_TimestampId b; rc_hashes := [BeaconTimestamp_Hash b];
                         rc_time := BeaconTimestamp_SubmitTime b |}.
(* GetBeaconTimestampByID: the stored record under (id, timestamp id), or the zero struct and false *)
Definition reg_GetRecord (w : rworld) (id tsid : Z) : go_BeaconTimestamp * bool :=
  match aget (id, tsid) (r_recs (rw_reg w)) with
  | Some rc => (mk_go_BeaconTimestamp (rc_key rc) (rc_time rc) (nth 0 (rc_hashes rc) EmptyString), true)
  | None => (zero_go_BeaconTimestamp, false)
  end.
Definition params_of_go (p : go_Params) : reg_params :=
  {| rp_fee_register := Params_FeeRegister p; rp_fee_record := Params_FeeRecord p; rp_fee_purchase := Params_FeePurchaseStorage p;
     rp_denom := Params_Denom p; rp_default_limit := Params_DefaultStorageLimit p; rp_max_limit := Params_MaxStorageLimit p |}.
Definition reg_SetParams (w : rworld) (p : go_Params) : outcome (rworld * unit) := reg_store_params w (params_of_go p).

(* ---- genesis (x/beacon/genesis.go) ---- *)
Definition beacon_PANIC : Z := 21.      (* panic(err) in InitGenesis *)
Definition params_to_go (p : reg_params) : go_Params :=
  {| Params_FeeRegister := rp_fee_register p; Params_FeeRecord := rp_fee_record p; Params_FeePurchaseStorage := rp_fee_purchase p;
     Params_Denom := rp_denom p; Params_DefaultStorageLimit := rp_default_limit p; Params_MaxStorageLimit := rp_max_limit p |}.
Definition reg_GetParams (w : rworld) : go_Params := params_to_go (r_params (rw_reg w)).
(* GetAllBeacons: the registrations in store order (ascending id) *)
Definition reg_GetAllEntities (w : rworld) : list go_Beacon := map (fun kv => to_go_entity (snd kv)) (r_regs (rw_reg w)).
Definition hash_n (n : nat) (rc : record) : string := nth n (rc_hashes rc) EmptyString.
(* the records of one registration as exported: ascending key, at most the newest EXPORT_CAP of them *)
Definition reg_GetRecordsForExport (w : rworld) (id : Z) :=
  map (fun kr => mk_go_BeaconTimestampGenesisExport (fst kr) (rc_time (snd kr)) (hash_n 0 (snd kr)))
      (newest EXPORT_CAP (sort_by_key (records_of id (r_recs (rw_reg w))))).

Definition beacon_ErrInvalidParams : Z := 40.     (* fmt.Errorf / errors.New in Params.Validate *)
