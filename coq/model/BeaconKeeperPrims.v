(* Primitives of the translated x/beacon keeper code that mention the module's protobuf records (see
   model/RegistryWorld.v for the rest and for what is trusted). *)
From MC Require Import lib.Prelude lib.AMap lib.GoSdk GeneratedBeaconTypes model.Bank model.Registry.
From MC Require Export model.RegistryWorld.

Definition beacon_ErrContentTooLarge : Z := ERR_REG.
Definition beacon_ErrMissingData : Z := ERR_REG.
Definition beacon_ErrInvalidData : Z := ERR_REG.
Definition beacon_ErrBeaconDoesNotExist : Z := ERR_REG_UNKNOWN.
Definition beacon_ErrNotBeaconOwner : Z := ERR_REG_NOT_OWNER.
Definition beacon_ErrExceedsMaxStorage : Z := ERR_REG_MAX.

Definition to_go_entity (rg : registration) : go_Beacon :=
  {| Beacon_BeaconId := rg_id rg; Beacon_Moniker := rg_moniker rg; Beacon_Name := rg_name rg;
     Beacon_LastTimestampId := rg_last rg; Beacon_FirstIdInState := rg_lowest rg; Beacon_NumInState := rg_num rg;
     Beacon_RegTime := rg_regtime rg; Beacon_Owner := rg_owner rg |}.
Definition of_go_entity (g : go_Beacon) : registration :=
  {| rg_id := Beacon_BeaconId g; rg_owner := Beacon_Owner g; rg_moniker := Beacon_Moniker g; rg_name := Beacon_Name g;
     rg_genesis := EmptyString; rg_type := EmptyString; rg_last := Beacon_LastTimestampId g;
     rg_num := Beacon_NumInState g; rg_lowest := Beacon_FirstIdInState g; rg_regtime := Beacon_RegTime g |}.

Definition reg_GetEntity (w : rworld) (id : Z) : go_Beacon * bool :=
  match aget id (r_regs (rw_reg w)) with
  | Some rg => (to_go_entity rg, true)
  | None => (zero_go_Beacon, false)
  end.
Definition reg_SetEntity (w : rworld) (g : go_Beacon) : outcome (rworld * unit) := reg_put_entity w (of_go_entity g).
Definition reg_GetStorageLimit (w : rworld) (id : Z) : go_BeaconStorageLimit * bool :=
  match aget id (r_limits (rw_reg w)) with
  | Some l => (mk_go_BeaconStorageLimit id l, true)
  | None => (mk_go_BeaconStorageLimit id MODULE_DEFAULT_LIMIT, false)
  end.
Definition reg_SetRecord (w : rworld) (id : Z) (b : go_BeaconTimestamp) : outcome (rworld * unit) :=
  reg_put_record w id {| rc_key := BeaconTimestamp_TimestampId b; rc_hashes := [BeaconTimestamp_Hash b];
                         rc_time := BeaconTimestamp_SubmitTime b |}.
Definition params_of_go (p : go_Params) : reg_params :=
  {| rp_fee_register := Params_FeeRegister p; rp_fee_record := Params_FeeRecord p; rp_fee_purchase := Params_FeePurchaseStorage p;
     rp_denom := Params_Denom p; rp_default_limit := Params_DefaultStorageLimit p; rp_max_limit := Params_MaxStorageLimit p |}.
Definition reg_SetParams (w : rworld) (p : go_Params) : outcome (rworld * unit) := reg_store_params w (params_of_go p).
