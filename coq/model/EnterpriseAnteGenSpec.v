(* Vocabulary for the theorems that tie the GENERATED x/enterprise fee decorator (CheckLockedUndDecorator.AnteHandle in
   GeneratedEnterpriseAnte.v, from x/enterprise/ante/ante.go) to the model's [unlock_ante] (model/App.v): the sdk.Tx the
   enterprise decorator sees for a model transaction.  Definitions only. *)
From MC Require Import lib.Prelude lib.AMap lib.GoSdk GeneratedEnterpriseTypes model.Bank model.Registry model.Enterprise
  model.App model.EnterpriseKeeperPrims.

(* a model message as the sdk.Msg the enterprise decorator sees: the enterprise module's own messages as their structs (as
   model/EnterpriseGenSpec.v hands them to the message server), everything else - WRKChain and BEACON messages included -
   opaque, known by its type class (model/App.v [msg_type]; model/EnterpriseAntePrims.v reads the classes 4..6 / 7..9) *)
Definition ent_anymsg_of (m : msg) : go_anymsg :=
  match m with
  | MEnt (ERaise p d amt) =>
      AM_MsgUndPurchaseOrder {| MsgUndPurchaseOrder_Purchaser := p; MsgUndPurchaseOrder_Amount := (d, amt) |}
  | MEnt (EDecide sg poid dec) =>
      AM_MsgProcessUndPurchaseOrder
        {| MsgProcessUndPurchaseOrder_PurchaseOrderId := poid; MsgProcessUndPurchaseOrder_Decision := dec;
           MsgProcessUndPurchaseOrder_Signer := sg |}
  | MEnt (EWhitelist sg target act) =>
      AM_MsgWhitelistAddress
        {| MsgWhitelistAddress_Address := target; MsgWhitelistAddress_Signer := sg; MsgWhitelistAddress_Action := act |}
  | MUpdParams au (UEnt p) => AM_MsgUpdateParams (mk_go_MsgUpdateParams au (params_to_go p))
  | _ => AM_Other (msg_type m)
  end.

Definition ent_gotx_of (t : tx) : go_tx :=
  {| Tx_Msgs := map ent_anymsg_of (tx_msgs t); Tx_Fee := tx_fee t; Tx_FeePayer := tx_payer t |}.
