(* Specification vocabulary for the registry theorems C07 / C08 / C09 (definitions only). *)
From MC Require Import lib.Prelude lib.AMap model.Bank model.Registry.

Definition u64 (z : Z) : Prop := 0 <= z < two64.

(* the records held in state for one registration, in store order: (key, record) *)
Definition recs_of (id : Z) (recs : amap (Z * Z) record) : list (Z * record) :=
  map (fun kv => (snd (fst kv), snd kv)) (filter (fun kv => fst (fst kv) =? id) recs).

Definition keys_of (id : Z) (recs : amap (Z * Z) record) : list Z := map fst (recs_of id recs).

Definition lastn {A} (n : nat) (l : list A) : list A := skipn (List.length l - n) l.

(* what the wire format guarantees about a delivered message *)
Definition reg_msg_wf (m : reg_msg) : Prop :=
  match m with
  | RRegister o _ _ _ _ => 0 <= o
  | RRecord o id key _ => 0 <= o /\ u64 id /\ u64 key
  | RPurchase o id n => 0 <= o /\ u64 id /\ u64 n
  end.

(* ---- a history with a ghost log of every accepted record, per registration ---- *)
Record ghost := {
  g_log : amap Z (list (Z * record));      (* id -> accepted (key, record), oldest first *)
  g_reg : list (Z * reg_msg * Z)           (* accepted registrations: (id, message, unix time), oldest first *)
}.

Definition log_of (g : ghost) (id : Z) : list (Z * record) :=
  match aget id (g_log g) with Some l => l | None => [] end.

Section Run.
  Variable heighted : bool.

  (* one delivered message at unix time [t]; a failing message changes nothing *)
  Definition reg_step (sg : reg_state * ghost) (tm : Z * reg_msg) : reg_state * ghost :=
    let '(s, g) := sg in
    let '(t, m) := tm in
    match reg_validate_basic heighted m with
    | Ok _ =>
        match reg_exec heighted t s m with
        | Ok (s', RespRegistered id) =>
            (s', {| g_log := g_log g; g_reg := g_reg g ++ [(id, m, t)] |})
        | Ok (s', RespRecorded id k) =>
            match aget (id, k) (r_recs s') with
            | Some rc => (s', {| g_log := aset id (log_of g id ++ [(k, rc)]) (g_log g); g_reg := g_reg g |})
            | None => (s', g)     (* limit 0 cannot occur: see reg_inv *)
            end
        | Ok (s', _) => (s', g)
        | _ => (s, g)
        end
    | _ => (s, g)
    end.

  Definition reg_run (sg : reg_state * ghost) (h : list (Z * reg_msg)) : reg_state * ghost :=
    fold_left reg_step h sg.

  (* a parameter update by governance between messages (only valid params are stored) *)
  Definition reg_set_params (s : reg_state) (p : reg_params) : reg_state :=
    if reg_params_valid p
    then {| r_params := p; r_next := r_next s; r_regs := r_regs s; r_limits := r_limits s; r_recs := r_recs s |}
    else s.

End Run.

Definition reg_init (p : reg_params) (start_id : Z) : reg_state :=
  {| r_params := p; r_next := start_id; r_regs := []; r_limits := []; r_recs := [] |}.

Definition ghost_init : ghost := {| g_log := []; g_reg := [] |}.

Fixpoint strictly_increasing (l : list Z) : Prop :=
  match l with
  | [] => True
  | x :: r => match r with [] => True | y :: _ => x < y /\ strictly_increasing r end
  end.
