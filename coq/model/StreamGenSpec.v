(* Vocabulary for the theorems that tie the code GENERATED from /repo/x/stream/keeper (GeneratedStreamKeeper.v) to the
   hand-written model (model/Stream.v).  Definitions only. *)
From MC Require Import lib.Prelude lib.AMap lib.GoSdk GeneratedFns GeneratedStreamTypes model.Bank model.Stream
  model.StreamSpec model.StreamKeeperPrims GeneratedStreamKeeper.

Definition world (now : Z) (b : bank) (s : str_state) : kworld := mk_kworld now b s.

(* a model result seen as a result of the generated code *)
Definition lift {A B} (now : Z) (f : A -> B) (o : outcome (bank * str_state * A)) : outcome (kworld * B) :=
  match o with
  | Ok (b, s, a) => Ok (world now b s, f a)
  | Err c => Err c
  | Panic c => Panic c
  end.
Definition lift0 {B} (now : Z) (v : B) (o : outcome (bank * str_state)) : outcome (kworld * B) :=
  match o with
  | Ok (b, s) => Ok (world now b s, v)
  | Err c => Err c
  | Panic c => Panic c
  end.

Definition claim_coins (d : denom) (c : claim_res) : go_coin * go_coin * go_coin * go_coin :=
  ((d, cr_receiver c), (d, cr_fee c), (d, cr_total c), (d, cr_remaining c)).

Definition denom_of (s : str_state) (r sn : addr) : denom :=
  match aget (r, sn) (s_streams s) with Some st => st_denom st | None => go_zero_denom end.

(* the generated message server, driven by the model's message type *)
Definition go_msg_exec (w : kworld) (m : str_msg) : outcome (kworld * str_resp) :=
  match m with
  | SCreate sn r d amt rate =>
      do (w', _) <- go_CreateStream w (mk_go_MsgCreateStream r sn (d, amt) rate); Ok (w', RNone)
  | SClaim sn r =>
      do (w', rsp) <- go_ClaimStream w (mk_go_MsgClaimStream sn r);
      Ok (w', RClaim {| cr_receiver := snd (MsgClaimStreamResponse_StreamPayment rsp);
                        cr_fee := snd (MsgClaimStreamResponse_ValidatorFee rsp);
                        cr_total := snd (MsgClaimStreamResponse_TotalClaimed rsp);
                        cr_remaining := snd (MsgClaimStreamResponse_RemainingDeposit rsp) |})
  | STopUp sn r d amt =>
      do (w', rsp) <- go_TopUpDeposit w (mk_go_MsgTopUpDeposit r sn (d, amt));
      Ok (w', RTopUp (snd (MsgTopUpDepositResponse_CurrentDeposit rsp)) (MsgTopUpDepositResponse_DepositZeroTime rsp))
  | SUpdateFlow sn r rate =>
      do (w', _) <- go_UpdateFlowRate w (mk_go_MsgUpdateFlowRate r sn rate); Ok (w', RNone)
  | SCancel sn r =>
      do (w', _) <- go_CancelStream w (mk_go_MsgCancelStream r sn); Ok (w', RNone)
  end.

(* histories, exactly as str_step / str_run of model/StreamSpec.v but executing the generated code *)
Definition go_step (bs : bank * str_state) (tm : Z * str_msg) : bank * str_state :=
  let '(t, m) := tm in
  match str_validate_basic m with
  | Ok _ =>
      match go_msg_exec (world t (fst bs) (snd bs)) m with
      | Ok (w', _) => (kw_bank w', kw_str w')
      | _ => bs
      end
  | _ => bs
  end.

Definition go_run (bs : bank * str_state) (h : list (Z * str_msg)) : bank * str_state :=
  fold_left go_step h bs.
