"""Per-property configuration of bin/vcheck: which Coq targets hold the executable model and
checker, which harness sub-commands produce the cases (quick / thorough volumes), the trusted
base and the source-derived obligations evaluated on the translator's facts."""

COMMON_TRUSTED_BASE = [
    "Coq 8.16.1 kernel (coqc, full .vo build; vm_compute used, native_compute not used)",
    "no axioms declared by the development; Print Assumptions output recorded per theorem",
    "hand-written Gallina model tied to /repo by the correspondence check (Go harness vharness built against /repo's working tree; differential testing, bounded by its generators)",
    "translator (Go AST reader) for the constants/wiring facts in coq/Generated.v",
    "Coq's Print/vm_compute output parsing in bin/vcheck",
]

PROPS = {}
NOT_CLAIMED = {}

PROPS["C19"] = {
    "model_targets": ["model/DenomCheck.vo"],
    "harness": [{"cmd": "denom", "quick": ["-n", 3000], "thorough": ["-n", 200000, "-shard", 4000]}],
    "trusted_base": ["Coq stdlib Decimal/DecimalString printing = Go big.Int.String on naturals (validated by the correspondence)",
                     "modelled: types/denom.go ConvertUndDenomination on inputs digits*[.digits*]; big.Rat parsing of other syntaxes (signs, exponents, fractions) is outside the model"],
    "assumptions": ["inputs are non-negative decimal strings digits*[.digits*]"],
    "level_text": "Coq theorems: conversion is exact for every decimal with <= 9 fractional digits (floor beyond), nine-decimal printing of nund/10^9, value- and string-level round trips through the modelled printer/parser, for all naturals (no bound). The model of ConvertUndDenomination is compared with the real function on boundary + random strings inside Coq on every run; a monitor evaluates the exactness law directly on the implementation's outputs.",
    "level_note": "Trusted: Coq kernel; the hand-written model of types/denom.go (big.Rat arithmetic, FloatString(9) rounding) and its agreement with the code only as far as the generated strings go; Go's big.Int decimal printing = Coq's Decimal printing. Inputs with signs/exponents/fractions are outside the model.",
    "technique": "Coq proof (stdlib Decimal/N arithmetic) + in-Coq differential check of the model against types.ConvertUndDenomination",
}

PROPS["C18"] = {
    "model_targets": ["model/KeysCheck.vo", "model/PaginateCheck.vo"],
    "harness": [{"cmd": "keys", "quick": ["-n", 3000], "thorough": ["-n", 120000, "-shard", 400]},
                {"cmd": "lists", "quick": ["-n", 2, "-blocks", 8, "-only", "streams"], "thorough": ["-n", 40, "-blocks", 16, "-only", "streams", "-shard", 1500], "timeout": 7200}],
    "trusted_base": ["modelled: the key builders/parsers of x/{enterprise,wrkchain,beacon,stream}/types/keys.go as byte lists; that each module owns a separate KV store is a wiring fact read by the translator (store keys in app.go)",
                     "the prefix-store stripping done by the SDK (prefix.NewStore) is modelled as skipn (length prefix)"],
    "assumptions": ["ids/heights are uint64; addresses have 1..255 bytes"],
    "level_text": "Coq theorems over all uint64 ids/heights and all addresses of 1..255 bytes: every key encoder is injective; set/delete at one key never changes the read at another (store model); every iteration prefix selects exactly its own section (incl. per-registration record ranges and the per-receiver stream range); big-endian order = numeric order (ids, (id,height) lexicographic); stream keys parse back to exactly (receiver, sender) on every path the queries use (and the three stream list queries of the real application, on states with addresses of many lengths incl. senders ending in <len><another address>, must list every stream with the pair it is stored under). The byte-level model is compared with the real Go builders/parsers on boundary x random keys inside Coq on every run, and the injectivity/order/round-trip laws are also evaluated directly on the implementation's bytes.",
    "level_note": "Trusted: Coq kernel; the hand-written byte model and its agreement with keys.go as far as generated keys go; separate stores per module (app wiring). One defect found by the proof (uint8 wrap for 255-byte senders) was repaired by a fix: commit and is kept as a _legacy refutation.",
    "technique": "Coq proof over list N byte strings + in-Coq differential check of the key builders/parsers",
}


# ---- properties decided on the application model (chain harness) ----
CAT = {"bank": 1, "ent": 2, "wrk": 3, "bcn": 4, "str": 5, "supplyq": 6, "result": 7, "halt": 8, "params": 9}
APP_MODEL_TARGETS = ["model/AppCheck.vo"]
APP_TRUSTED = [
    "modelled, not verified: cosmos-sdk v0.47 baseapp.runTx (ante cache / message cache / panic recovery), x/bank send/mint/burn and the blocked-address rule, x/auth fee deduction and signature verification (one bit per tx), x/authz generic grants and MsgExec dispatch, x/feegrant basic allowances, x/gov (only: which proposal messages were executed in which EndBlock, taken from the real chain), math.LegacyDec arithmetic",
    "not modelled: gas, sequences, vesting accounts, IBC, staking/distribution internals (fee collector and distribution balances are not compared)",
    "addresses are abstract integers (scenario accounts >= 0, module accounts negative); bech32 spelling is not modelled (the harness uses canonical lower-case addresses)",
]

def chain(focus, quick_n, thorough_n, blocks=10, props=None, extra=None, extra_q=None, extra_t=None):
    q = ["-n", quick_n, "-blocks", blocks, "-focus", focus, "-shard", 8]
    t = ["-n", thorough_n, "-blocks", blocks + 6, "-focus", focus, "-shard", 10]
    if props:
        q += ["-props", props]; t += ["-props", props]
    if extra:
        q += extra; t += extra
    q += extra_q or []
    t += extra_t or []
    return {"cmd": "chain", "quick": q, "thorough": t, "timeout": 7200}

def app_prop(pid, focus, cats, level_text, level_note, quick_n=64, thorough_n=1500, extra_harness=None, technique=None, extra_q=None, extra_t=None):
    PROPS[pid] = {
        "model_targets": APP_MODEL_TARGETS + (extra_harness or {}).get("model_targets", []),
        "harness": [chain(focus, quick_n, thorough_n, props=pid, extra_q=extra_q, extra_t=extra_t)] + (extra_harness or {}).get("harness", []),
        "corr_categories": [CAT[c] for c in cats] + [CAT["result"], CAT["halt"]],
        "trusted_base": APP_TRUSTED,
        "assumptions": ["histories are generated (structured random); the theorems, not the histories, carry the universal claim"],
        "level_text": level_text, "level_note": level_note,
        "technique": technique or "Coq proof (invariants by induction over all operation histories of the executable model) + Go-to-Gallina translation of the modules' keeper / message-server / validation / genesis code regenerated from /repo on every run and proved equal to the model (DESIGN 0.6) + in-Coq differential replay of real ABCI histories against the model + property monitors on the real application",
    }

app_prop("C07", "reg,reggov,mixed", ["wrk", "bcn"],
    "Coq theorems over all histories of the registry model (written once, instantiated for WRKChain and BEACON): a ghost log of accepted records only grows; every accepted record is, after any later history, either returned bit-for-bit or pruned (key below the lowest retained one), and everything queryable was accepted exactly so; WRKChain heights strictly increase; BEACON timestamp ids are 1,2,3,...; a rejected submission leaves the state unchanged. The model is replayed against real ABCI histories (every record ever accepted is re-read after every operation).",
    "Trusted: Coq kernel; hand-written registry model and its agreement with x/wrkchain, x/beacon as far as generated histories go; counters advanced once per transaction are unbounded integers in the model (2^64 transactions are out of reach).")
app_prop("C08", "reg,reggov,mixed", ["wrk", "bcn"],
    "Coq theorems: in every reachable state the records in state of a registration are exactly the last n accepted ones, n evolving by n' = min(n+1, limit) (closed form min(total, limit) when no purchase follows a pruning); counters NumBlocks/NumInState, Lowest/First, Last equal what the store holds; the limit starts at the default in force at registration, changes only by the owner's successful purchase by exactly the purchased number (integer sum, no wrap) and never above the maximum in force; reported capacity = max(0, max - limit). Replayed against real histories with tiny limits, over-max and 2^63 / 2^64-1 slot counts, nested purchases and governance changes of the limits.",
    "Trusted: as C07. Reading note (DESIGN section 5): 'most recent min(total, limit)' is stated as the sharper recurrence because pruned records cannot come back after a later purchase.")
app_prop("C09", "reg,reggov,mixed", ["wrk", "bcn"],
    "Coq theorems: the k-th successful registration gets start+k-1 (ids pairwise distinct, never reused); moniker, name, genesis/type, owner, registration time equal the submitted values in every later state; a record or purchase succeeds only for the registered owner; non-owners and unknown ids are rejected without effect. Replayed against real histories with many registrants and (signer, id) cross products.",
    "Trusted: as C07.")
app_prop("C10", "stream,strgov,mixed", ["str", "bank"],
    "Coq theorems: for every history of stream operations (any times, amounts, rates, fee rates in [0,1]) the escrow account holds per denomination exactly the sum of remaining deposits; stream operations neither mint nor burn; each release pays floor(release*fee) to the fee collector and the rest to the receiver, debiting escrow and deposit by the release; other streams are untouched; failed operations change nothing. App-level frame: no other message moves the escrow (blocked address). Replayed against real histories incl. governance changes of the fee rate and transfers aimed at the escrow.",
    "Trusted: Coq kernel; hand-written stream + bank model and its agreement with x/stream as far as generated histories go; LegacyDec.Mul of an integer by an 18-digit decimal is exact (modelled).")
app_prop("C11", "stream,strgov", ["str", "bank"],
    "Coq theorems for all rates in [1,2^63), all deposits, all time gaps: a release before the zero time pays exactly rate*floor(seconds since last release) (Go's Unix/nanosecond arithmetic proved equal to the floor), at/after it the whole remainder; create/top-up/update-flow set the zero time to now+floor(D/r) s, +floor(a/r) s, now+floor(D'/r') s; addSeconds never stores a wrapped time (a wrapped sum is unstorable, the tx aborts); the sustain invariant rate*(DZT-LOT) <= deposit*1e9 (or the stream is empty and expired) holds in every reachable state; hence a claim before the zero time never empties the stream and never pays more than rate*elapsed. Replayed against real histories and against the three pure functions on boundary tables.",
    "Trusted: as C10. Block times are after 1970 and storable (years 1..9999).",
    extra_harness={"harness": [{"cmd": "streamfn", "quick": ["-n", 3000], "thorough": ["-n", 200000, "-shard", 4000]}], "model_targets": ["model/StreamFnCheck.vo"]})
app_prop("C12", "stream,strgov", ["str", "bank"],
    "Coq theorems: in every state satisfying the stream invariant a claim on a funded stream succeeds, a cancel succeeds and refunds the unreleased remainder, an affordable top-up succeeds when the new zero time is representable; claim and cancel never return an arithmetic panic. The unrepresentable-top-up class is exhibited as a machine-checked witness (listed finding). Replayed against real histories with 18-decimal amounts above 2^63 and fee rates incl. 1.",
    "Trusted: as C10.",
    extra_harness={"harness": [{"cmd": "params", "quick": ["-n", 1500], "thorough": ["-n", 50000, "-shard", 4000]}], "model_targets": ["model/ParamsCheck.vo"]})

app_prop("C03", "ent,entgov,mixed", ["ent"],
    "Coq theorems over all histories of the enterprise model (messages, BeginBlock, governance parameter updates, fee unlocks): raising needs a whitelisted purchaser; a decision needs a current signer, a raised order and no earlier decision by that signer (decision signers of an order are pairwise distinct in every reachable state); the tally is exactly the stated rule for all valid parameters (Go's int()/uint64 casts proved harmless); status moves only nil->raised->accepted->completed or raised->rejected and terminal orders are bit-for-bit frozen; an order accepted before a BeginBlock is completed in it, crediting exactly its amount to locked[purchaser], totalLocked and supply, once. Replayed against real histories; the tally rule is also recomputed independently on the real application at every BeginBlock.",
    "Trusted: Coq kernel; hand-written enterprise+bank model and its agreement with x/enterprise as far as generated histories go. Bech32 spelling is not modelled: the double-decision-by-upper-case defect was repaired by a fix: commit and is exercised by a dedicated implementation-side scenario.",
    extra_q=["-entenum", 72], extra_t=["-entenum", 216])
app_prop("C04", "efund,efund,fees", ["ent", "bank"],
    "Coq theorems: one inductive invariant over all enterprise histories - escrow balance = total locked = sum of locked entries, total spent = sum of spent entries, locked[a]+spent[a] = sum of a's completed orders, the escrow holds no other denomination - and the exact case split of the fee unlock (fee <= locked: unlock fee; locked < fee <= liquid+locked: unlock all; else nothing; a fee carrying another denomination makes the undelegation fail and changes nothing); messages and parameter updates leave the bank untouched; the escrow is a blocked recipient. App-level (props/C04app.v): no user transaction moves the escrow except by unlocking. Replayed against real histories; the books are recomputed on the real application after every operation.",
    "Trusted: as C03; vesting accounts are outside the model.", quick_n=90)
app_prop("C06", "fees,efund", ["result"],
    "Coq theorems: if CheckTx admits a transaction with top-level WRKChain (resp. BEACON) messages then the amount offered in the module's fee denomination equals exactly the sum of the registration / record / per-slot fees of those messages under the current parameters, and liquid + locked funds of the payer cover it - for every accompanying denomination, order and multiplicity (permutation-invariance and additivity proved); slot counts >= 2^63 are rejected. The two listed gaps are machine-checked witnesses (mixed WRKChain+BEACON; registry message nested in MsgExec). CheckTx results of the real application are compared with the model (error classes: wrong denom / insufficient / too much / exceeds max storage) and with an independent fee oracle.",
    "Trusted: as C03; fee decorators run only in CheckTx (ctx.IsCheckTx), which is what the property speaks about.", quick_n=60)
app_prop("C13", "mixed,entgov,reg,stream,efund", ["ent", "wrk", "bcn", "str", "params", "bank"],
    "Coq theorems: a message executes successfully only if its signer is entitled in the state in which it runs (whitelisted purchaser, current enterprise signer, registered owner, the stream's sender / receiver, the governance authority), recursively through MsgExec where every inner message runs for the grantee itself or for a granter whose grant exists at that point; a non-entitled message is an error; a transaction lacking valid signatures changes nothing; user transactions can never change parameters (no grant is ever issued by a module account: invariant). GetSigners fields are read from the source by the translator (wiring_get_signers). Replayed against real histories crossing message types with signers.",
    "Trusted: as C03; signature verification itself is the SDK's (one bit per transaction in the model).")
app_prop("C14", "mixed,fees,ent", ["ent", "wrk", "bcn", "str", "params", "bank"],
    "Coq theorems: a transaction that fails before execution leaves the state unchanged; one whose k-th message fails (error or panic, every k) keeps exactly the ante stage's effects, and the ante stage touches only fee balances and - for registry transactions - the locked/spent books; CheckTx never executes messages; governance proposals are atomic; EndBlock is total. App-level (props/C14app.v): BeginBlock never panics in reachable states outside the listed class (enterprise denomination changed while an accepted order waits), which is a machine-checked witness. Replayed against real histories with panicking messages; every failed real transaction is checked to change nothing but fee/unlock observables.",
    "Trusted: as C03. Partial: that baseapp.runTx really recovers panics and discards its caches is runtime behaviour - validated by the correspondence (panicking messages occur in the histories), not proved.")
app_prop("C16", "mixed,entgov,reggov,strgov", ["params", "ent", "wrk", "bcn", "str"],
    "Coq theorems: each Params.Validate is equivalent to the stated validity predicate (with Go's casts); an update with any invalid field is rejected as a whole; stored parameters are valid in every reachable state of the node (deliver, check and committed states); only a governance update changes parameters and the new values are what every later fee check, limit check, tally and fee split reads (rewriting lemmas). Validate() of the four real modules is compared with the model on generated parameter structures; governance updates are executed mid-history on the real chain.",
    "Trusted: as C03.",
    extra_harness={"harness": [{"cmd": "params", "quick": ["-n", 3000], "thorough": ["-n", 100000, "-shard", 4000]}], "model_targets": ["model/ParamsCheck.vo"]})

app_prop("C02", "mixed,ent,fees", ["bank"],
    "Coq theorems: every message kind (incl. nested MsgExec and failed transactions), CheckTx, DeliverTx and EndBlock (governance updates) leave the supply of every denomination unchanged; BeginBlock raises the supply of the enterprise denomination by exactly the sum of the orders that were accepted before the block (which are completed afterwards) and of no other denomination; the sum of all balances equals the supply in every reachable state of the node (global invariant app_inv, by induction over all well-formed histories). Source-derived: only the enterprise (and the IBC transfer) module account holds Minter, the only caller chain of BankKeeper.MintCoins is BeginBlocker -> ProcessAcceptedPurchaseOrders -> MintCoinsAndLock, no inflation module runs. Replayed against real histories; supply deltas and the balance sum are recomputed on the real application.",
    "Trusted: as C03; IBC voucher minting is outside the model (no channel is open in the harness); burns do not occur in the modelled operations (gov deposit burns are not modelled).")
app_prop("C05", "efund,efund,fees", ["ent", "bank"],
    "Coq theorems (global invariant app_inv): DeliverTx never raises a locked balance and lowers one only for the fee payer of a transaction with a top-level WRKChain/BEACON message whose ante stage passed, by exactly min(fee in the enterprise denomination, locked), recorded as spent; rejected transactions change nothing; no message kind at any nesting depth moves locked/spent books; order completion leaves every ordinary account's liquid balance unchanged; same rule for CheckTx on the check state. The vesting-purchaser class is a listed finding witnessed on the implementation. Replayed against real histories with every fee/locked/liquid relation, fee granters and bad signatures.",
    "Trusted: as C03; vesting accounts are outside the model (listed finding C05 class 1).", quick_n=90)
app_prop("C17", "ent,fees,mixed", ["supplyq", "ent"],
    "Coq theorems (global invariant app_inv): SupplyOf(enterprise denom) = bank supply - total locked and is non-negative, other denominations are reported unchanged; EnterpriseSupply gives locked + unlocked = total with none negative (below 2^64; the Uint64() panic above is an observed witness). Both queries of the real application are compared with the model after every operation and the paginated total-supply listing is walked with several page sizes (each denomination exactly once).",
    "Trusted: as C03. Not modelled: gRPC-gateway route precedence (that the enterprise endpoints replace the bank module's for REST clients).")
PROPS["C20"] = {
    "model_targets": ["model/PaginateCheck.vo"],
    "harness": [{"cmd": "lists", "quick": ["-n", 5], "thorough": ["-n", 120, "-blocks", 24, "-shard", 1500], "timeout": 7200}],
    "trusted_base": ["modelled: cosmos-sdk v0.47 types/query FilteredPaginate / GenericFilteredPaginate (key mode, offset mode, count_total, reverse, uint64 arithmetic); the stores' iteration order is byte order of the keys (C18 proves it is numeric order)",
                     "ground truth of the correspondence comes from keeper iteration and point queries of the real application"],
    "assumptions": ["callback / unmarshal errors do not occur"],
    "level_text": "Coq theorems about the exact SDK pagination loops: following NextKey to the end, or advancing the offset by the limit, returns every item matching the filter exactly once and nothing else, in key order (also in reverse), for every store content, filter and limit (uint64 side conditions stated; the limit = 2^64-1 wrap is an observed witness); every single page is sound (stored, matching, no duplicates, at most limit items); count_total is the number of matching items. Source-derived: no store write or bank mutation is reachable from any query server method (call graph closure checked in Coq). Every paginated list query of the four modules on the real application is compared page by page with the model, whole key walks are compared with the filtered ground truth, listed items with point queries, and the state is compared before/after.",
    "level_note": "Trusted: Coq kernel; the hand-written pagination model and its agreement with the SDK as far as generated requests go; translator call graph is name-resolved (over-approximate).",
    "technique": "Coq proof over the modelled SDK pagination loops + source-derived call-graph closure + in-Coq differential check of every list query",
}

PROPS["C01"] = {
    "model_targets": ["model/AppCheck.vo"],
    "harness": [{"cmd": "twin", "quick": ["-n", 10, "-blocks", 6], "thorough": ["-n", 200, "-blocks", 8, "-all-crash-points"], "timeout": 14400}],
    "trusted_base": APP_TRUSTED + ["runtime part (Go scheduler, CPU count, storage backend, IAVL, wall clock) is exercised, not proved: twin processes and crash/reopen runs of the real binary"],
    "assumptions": ["CometBFT delivers the same transaction bytes and header times to every node"],
    "level_text": "Coq theorems: crash/replay refinement of the node model - dropping the application at any point of a block (after BeginBlock, after any DeliverTx, after EndBlock) loses exactly the uncommitted state, the reopened node equals the last committed one and replaying the block yields the same committed state and the same per-transaction results; a crash after Commit loses nothing; the committed state after a block is a function of (committed state, block) only. Source-derived (call graph closure checked in Coq): the only wall-clock / map-range effects reachable from consensus entry points are four audited sites - the telemetry timer, the BEACON default submit time (proved unreachable: ValidateBasic rejects SubmitTime = 0 at every nesting depth), and the two max-slots map ranges (outcome proved invariant under permutation of the table). Runtime validation: every random history is executed in four processes (memdb; goleveldb with GOMAXPROCS=1 started 1.1 s later; goleveldb with crash + reopen at the chosen points; memdb) and app hashes and per-transaction (code, data, gas wanted, gas used) are compared byte for byte.",
    "level_note": "PARTIAL: scheduler / CPU-count / storage-backend independence of the Go runtime and the SDK is sampled by twin executions, not proved. Listed finding C01 class 1 (restart-dependent GasUsed of transactions failing before the ante handler; SDK behaviour). Translator call graph is name-resolved from the AST (over-approximate); effects inside dependencies (cosmos-sdk, ibc-go) are not analysed.",
    "technique": "Coq proof of the crash/replay refinement + source-derived effect/call-graph obligations checked in Coq + twin/restart executions of the real application",
}

app_prop("C15", "genesis,genesis,mixed", ["ent", "wrk", "bcn", "str", "bank", "params", "supplyq"],
    "Coq theorems about the model of the four modules' genesis export/import: importing the exported document succeeds in every state satisfying the reachable-state invariants (parameters valid, enterprise escrow = total locked, stream escrow = sum of deposits); the imported state is observationally equal to the original (component by component: Leibniz-equal except the representation of absent totals and the grouping of records per registration), satisfies the whole application invariant again (in particular both registered invariants), and exporting it again gives the identical document - without any cap hypothesis; above the cap exactly the newest 20,000 records per registration are exported with recomputed, consistent counters; queues are rebuilt from the statuses in id order; and a bisimulation: every well-formed history has the same per-operation results and observationally equal states on the original chain and on the chain started from its export. On the real application every random history is interrupted at block boundaries by ExportAppStateAndValidators + InitChain on a fresh application with genesis invariants on; the model does the same re-import; observables, re-exported documents, registered invariants and two further blocks in lock-step with the original application are compared. Source-derived: enterprise and stream are initialised before crisis asserts invariants (wiring_genesis_order), export cap constants.",
    "Trusted: as C03; bank/auth/gov genesis of the SDK is carried over as is in the model. The 20,001+-record scenario runs on the implementation only (thorough tier) - replaying 20,000 records in the in-Coq evaluator is too slow - the cap theorem covers it on the model side.",
    quick_n=36, extra_t=["-bigexport"])
