"""Per-property configuration of bin/vcheck: which Coq targets hold the executable model and
checker, which harness sub-commands produce the cases (quick / thorough volumes), the trusted
base and the source-derived obligations evaluated on the translator's facts."""

COMMON_TRUSTED_BASE = [
    "Coq 8.16.1 kernel (coqc, full .vo build; vm_compute used, native_compute not used)",
    "no axioms declared by the development; Print Assumptions output recorded per theorem",
    "hand-written Gallina model tied to /repo by the correspondence check (Go harness vharness built against /repo's working tree; differential testing, bounded by its generators)",
    "translator (Go AST reader) for the constants/wiring facts in coq/Generated.v",
    "Coq's Print/vm_compute output parsing in bin/vcheck",
]

PROPS = {}
NOT_CLAIMED = {}

PROPS["C19"] = {
    "model_targets": ["model/DenomCheck.vo"],
    "harness": [{"cmd": "denom", "quick": ["-n", 3000], "thorough": ["-n", 200000, "-shard", 4000]}],
    "trusted_base": ["Coq stdlib Decimal/DecimalString printing = Go big.Int.String on naturals (validated by the correspondence)",
                     "modelled: types/denom.go ConvertUndDenomination on inputs digits*[.digits*]; big.Rat parsing of other syntaxes (signs, exponents, fractions) is outside the model"],
    "assumptions": ["inputs are non-negative decimal strings digits*[.digits*]"],
    "level_text": "Coq theorems: conversion is exact for every decimal with <= 9 fractional digits (floor beyond), nine-decimal printing of nund/10^9, value- and string-level round trips through the modelled printer/parser, for all naturals (no bound). The model of ConvertUndDenomination is compared with the real function on boundary + random strings inside Coq on every run; a monitor evaluates the exactness law directly on the implementation's outputs.",
    "level_note": "Trusted: Coq kernel; the hand-written model of types/denom.go (big.Rat arithmetic, FloatString(9) rounding) and its agreement with the code only as far as the generated strings go; Go's big.Int decimal printing = Coq's Decimal printing. Inputs with signs/exponents/fractions are outside the model.",
    "technique": "Coq proof (stdlib Decimal/N arithmetic) + in-Coq differential check of the model against types.ConvertUndDenomination",
}

PROPS["C18"] = {
    "model_targets": ["model/KeysCheck.vo"],
    "harness": [{"cmd": "keys", "quick": ["-n", 3000], "thorough": ["-n", 120000, "-shard", 400]}],
    "trusted_base": ["modelled: the key builders/parsers of x/{enterprise,wrkchain,beacon,stream}/types/keys.go as byte lists; that each module owns a separate KV store is a wiring fact read by the translator (store keys in app.go)",
                     "the prefix-store stripping done by the SDK (prefix.NewStore) is modelled as skipn (length prefix)"],
    "assumptions": ["ids/heights are uint64; addresses have 1..255 bytes"],
    "level_text": "Coq theorems over all uint64 ids/heights and all addresses of 1..255 bytes: every key encoder is injective; set/delete at one key never changes the read at another (store model); every iteration prefix selects exactly its own section (incl. per-registration record ranges and the per-receiver stream range); big-endian order = numeric order (ids, (id,height) lexicographic); stream keys parse back to exactly (receiver, sender) on every path the queries use. The byte-level model is compared with the real Go builders/parsers on boundary x random keys inside Coq on every run, and the injectivity/order/round-trip laws are also evaluated directly on the implementation's bytes.",
    "level_note": "Trusted: Coq kernel; the hand-written byte model and its agreement with keys.go as far as generated keys go; separate stores per module (app wiring). One defect found by the proof (uint8 wrap for 255-byte senders) was repaired by a fix: commit and is kept as a _legacy refutation.",
    "technique": "Coq proof over list N byte strings + in-Coq differential check of the key builders/parsers",
}
