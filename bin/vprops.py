"""Per-property configuration of bin/vcheck: which Coq targets hold the executable model and
checker, which harness sub-commands produce the cases (quick / thorough volumes), the trusted
base and the source-derived obligations evaluated on the translator's facts."""

COMMON_TRUSTED_BASE = [
    "Coq 8.16.1 kernel (coqc, full .vo build; vm_compute used, native_compute not used)",
    "no axioms declared by the development; Print Assumptions output recorded per theorem",
    "hand-written Gallina model tied to /repo by the correspondence check (Go harness vharness built against /repo's working tree; differential testing, bounded by its generators)",
    "translator (Go AST reader) for the constants/wiring facts in coq/Generated.v",
    "Coq's Print/vm_compute output parsing in bin/vcheck",
]

PROPS = {}
NOT_CLAIMED = {}

PROPS["C19"] = {
    "model_targets": ["model/DenomCheck.vo"],
    "harness": [{"cmd": "denom", "quick": ["-n", 3000], "thorough": ["-n", 200000, "-shard", 4000]}],
    "trusted_base": ["Coq stdlib Decimal/DecimalString printing = Go big.Int.String on naturals (validated by the correspondence)",
                     "modelled: types/denom.go ConvertUndDenomination on inputs digits*[.digits*]; big.Rat parsing of other syntaxes (signs, exponents, fractions) is outside the model"],
    "assumptions": ["inputs are non-negative decimal strings digits*[.digits*]"],
    "level_text": "Coq theorems: conversion is exact for every decimal with <= 9 fractional digits (floor beyond), nine-decimal printing of nund/10^9, value- and string-level round trips through the modelled printer/parser, for all naturals (no bound). The model of ConvertUndDenomination is compared with the real function on boundary + random strings inside Coq on every run; a monitor evaluates the exactness law directly on the implementation's outputs.",
    "level_note": "Trusted: Coq kernel; the hand-written model of types/denom.go (big.Rat arithmetic, FloatString(9) rounding) and its agreement with the code only as far as the generated strings go; Go's big.Int decimal printing = Coq's Decimal printing. Inputs with signs/exponents/fractions are outside the model.",
    "technique": "Coq proof (stdlib Decimal/N arithmetic) + in-Coq differential check of the model against types.ConvertUndDenomination",
}
